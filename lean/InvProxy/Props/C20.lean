/-
  C20 — agent lifecycle: health gating, unhealthy exit, graceful shutdown.  Property theorems only.
-/
import InvProxy.Model.Lifecycle
import InvProxy.Proofs.Lifecycle
namespace InvProxy.C20
open InvProxy InvProxy.Lifecycle InvProxy.Gen

/-- With health checks enabled the agent does not ask the proxy for work until a health
    check has succeeded: in every run, as long as no check has passed, no list call was started. -/
theorem no_poll_before_healthy (cfg : Cfg) (hh : cfg.healthEnabled = true) (evs : List Lifecycle.Ev) (s : St)
    (h : run cfg (init cfg) evs = some s) (hn : Lifecycle.Ev.check true ∉ evs) : s.listsStarted = 0 ∧ s.phase ≠ .running := by
  have h0 : Unstarted (init cfg) := by simp [Unstarted, init, hh]
  obtain ⟨hp, hl⟩ := run_unstarted cfg evs _ s h0 h hn
  refine ⟨hl, ?_⟩
  rcases hp with hp | ⟨c, hp⟩ <;> simp [hp]

/-- T3: `main` calls `waitForHealthy` before it starts the adapter goroutine (and before the
    monitor), and the adapter is the only place the polling loop is started from. -/
theorem gate_precedes_polling :
    Skel.precedes (.call "waitForHealthy") (.call "runAdapter") skel_agent_main = true ∧
    Skel.precedes (.call "waitForHealthy") (.call "runHealthChecks") skel_agent_main = true ∧
    Skel.calls "pollForNewRequests" skel_agent_runAdapter = true ∧
    Skel.calls "pollForNewRequests" skel_agent_main = false := by decide

/-- the gate returns at the first passing check -/
theorem gate_first_pass (hist : List Bool) (k : Nat) :
    gate hist = some k ↔ (0 < k ∧ k ≤ hist.length ∧ hist[k - 1]? = some true ∧ ∀ j, j < k - 1 → hist[j]? = some false) := by
  exact gate_iff hist k

/-- The agent terminates itself at check k exactly when the last `t` checks up to k all
    failed and no earlier window of `t` consecutive failures exists (t = the configured
    threshold, clamped to at least 1) — for every health history and every threshold. -/
theorem unhealthy_exit_iff (threshold : Int) (hist : List Bool) (k : Nat) :
    monitor threshold hist = some k ↔
      (failedWindow hist (agent_healthClamp threshold).toNat k = true ∧ k ≤ hist.length ∧
       ∀ j, j < k → failedWindow hist (agent_healthClamp threshold).toNat j = false) := by
  exact monitor_iff threshold hist k

/-- a single success resets the count; the threshold is clamped to at least 1 -/
theorem success_resets (bad : Int) : agent_healthCount false bad = 0 := by
  exact healthCount_false bad
theorem failure_counts (bad : Int) : agent_healthCount true bad = bad + 1 := by
  exact healthCount_true bad
theorem threshold_clamped (t : Int) : 1 ≤ agent_healthClamp t ∧ (1 ≤ t → agent_healthClamp t = t) := by
  exact ⟨healthClamp_ge t, healthClamp_id t⟩

/-- with no failed check on the count the exit test is false for every configured threshold -/
theorem exit_zero (threshold : Int) : agent_healthExit 0 (agent_healthClamp threshold) = false := by
  have h := (threshold_clamped threshold).1
  simp [agent_healthExit]
  omega

theorem healthy_never_exits_from (threshold : Int) (k : Nat) (hist : List Bool) (h : ∀ b ∈ hist, b = true) :
    monitorFrom threshold 0 k hist = none := by
  induction hist generalizing k with
  | nil => rfl
  | cons b t ih =>
    have hb : b = true := h b (by simp)
    subst hb
    simp only [monitorFrom, Bool.not_true, success_resets, exit_zero]
    exact ih (k + 1) (fun b hb => h b (by simp [hb]))

/-- A backend whose health checks all pass is never abandoned: for every threshold (also 0 or negative, which the clamp
    turns into 1) and every length of history the monitor does not make the agent exit. -/
theorem healthy_never_exits (threshold : Int) (hist : List Bool) (h : ∀ b ∈ hist, b = true) :
    monitor threshold hist = none := healthy_never_exits_from threshold 0 hist h

/-- Graceful shutdown: once the signal has been handled no new pending-list poll starts —
    the one in flight may return (and its IDs are still forwarded), then the loop stops. -/
theorem graceful_no_new_polls (cfg : Cfg) (s s' : St) (e : Lifecycle.Ev) (hc : s.cancelled = true) (h : step cfg s e = some s') :
    s'.listsStarted = s.listsStarted ∧ s'.cancelled = true := by
  exact step_cancelled cfg s s' e hc h

theorem signal_cancels (cfg : Cfg) (hg : 0 < cfg.grace) (s s' : St) (hr : s.phase = .running) (h : step cfg s .signal = some s') :
    s'.cancelled = true ∧ s'.phase = .draining ∧ s'.workers = s.workers := by
  have hg' : cfg.grace ≠ 0 := by omega
  simp only [step, hr, hg', if_false, Option.some.injEq] at h
  subst h; simp

/-- … a request already forwarded to the backend is not affected by the cancellation: its
    completion step stays enabled throughout the grace period (workers never see the polling context) … -/
theorem graceful_inflight_completes (cfg : Cfg) (s : St) (hd : s.phase = .draining) (hw : 0 < s.workers) :
    ∃ s', step cfg s .workerDone = some s' ∧ s'.answered = s.answered + 1 ∧ s'.phase = .draining := by
  have ha : alive s = true := by simp [alive, hd]
  refine ⟨{ s with workers := s.workers - 1, answered := s.answered + 1 }, ?_, rfl, hd⟩
  simp [step, ha, hw]

theorem workers_do_not_see_polling_context : agent_pollingCtxName ∉ agent_workerArgs := by decide

/-- … and the process exits when the period ends, not before (short of an unhealthy exit). -/
theorem graceful_exit (cfg : Cfg) (s s' : St) (e : Lifecycle.Ev) (hd : s.phase = .draining) (h : step cfg s e = some s')
    (hx : s'.phase ≠ .draining) : (e = .graceElapsed ∧ s'.phase = .exited 1) ∨ (∃ ok, e = .check ok ∧ s'.phase = .exited 1) := by
  cases e <;> simp only [step, alive, hd] at h <;> (repeat' split at h) <;>
    simp_all <;> (subst h; simp_all)

/-- without the option the agent exits promptly on the signal -/
theorem prompt_exit_without_option (cfg : Cfg) (hg : cfg.grace = 0) (s : St) (hr : s.phase = .running) :
    step cfg s .signal = some { s with phase := .exited 0 } := by
  simp [step, hr, hg]

/-- … also while the agent is still waiting for its backend to come up (with or without the
    grace option): no handler is installed yet, so the signal's default action ends the process -/
theorem signal_during_gate_exits (cfg : Cfg) (s : St) (hg : s.phase = .gating) :
    step cfg s .signal = some { s with phase := .exited 2 } := by
  simp [step, hg]

/-- T3 for the line above: `main` installs the signal handler (`utils.ShutdownSignalChan`, i.e.
    `signal.Notify`) only after `waitForHealthy` has returned — a handler installed earlier would
    swallow a signal that arrives during the health gate, because the channel is read only later. -/
theorem handler_installed_after_gate :
    Skel.precedes (.call "waitForHealthy") (.call "utils.ShutdownSignalChan") skel_agent_main = true ∧
    Skel.count (.call "utils.ShutdownSignalChan") skel_agent_main = 1 := by decide

/-- T3: in `main` the signal is awaited before the polling context is cancelled, the cancel
    precedes the grace sleep, and the sleep precedes the exit -/
theorem shutdown_order :
    Skel.precedes (.recv "osShutdownSignalCh") (.call "requestPollingCancel") skel_agent_main = true ∧
    Skel.precedes (.call "requestPollingCancel") (.call "time.Sleep") skel_agent_main = true ∧
    Skel.recvs "pollingCtx.Done()" skel_agent_pollForNewRequests = true := by decide

-- non-vacuity
example : monitor 2 [true, false, true, false, false, true] = some 5 := by decide
example : monitor 0 [true, true, false] = some 3 := by decide
example : gate [false, false, true, false] = some 3 := by decide
example : (run ⟨true, 2, 3⟩ (init ⟨true, 2, 3⟩) [.check false, .check true, .loopStep, .listReturns 1, .loopStep, .signal, .listReturns 0, .loopStep, .workerDone, .graceElapsed]).map
    (fun s => (s.phase, s.listsStarted, s.answered)) = some (.exited 1, 2, 1) := by decide

end InvProxy.C20
