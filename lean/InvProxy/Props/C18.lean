/-
  C18 — the App Engine proxy routes to the most specific live backend.  Property theorems only.
-/
import InvProxy.Model.Route
import InvProxy.Proofs.Route
namespace InvProxy.C18
open InvProxy InvProxy.Route InvProxy.Gen

/-- Glue (tie T): the definition regenerated from store.go is the readable fold. -/
theorem gen_eq_model (path : Bytes) (bs : List Backend) :
    store_mostSpecificMatchingBackend path bs = mostSpecific path bs := by
  exact gen_eq_mostSpecific path bs

/-- Longest matching prefix; among equally long matches the first in (backend, prefix)
    order wins.  Backend IDs are non-empty (`parseBackend` rejects empty IDs). -/
theorem longest_prefix (path : Bytes) (bs : List Backend) (hid : ∀ b ∈ bs, b.BackendID ≠ []) (id : Bytes)
    (h : mostSpecific path bs = some id) :
    ∃ i, IsBest (matching path bs) i ∧ ((matching path bs)[i]?).map (·.1) = some id := by
  obtain ⟨i, r, hb, hr⟩ := mostSpecific_some path bs hid id h
  obtain ⟨h1, h2⟩ := hb.isBest
  exact ⟨i, h1, by rw [h2, Option.map_some, hr]⟩

theorem none_iff_no_match (path : Bytes) (bs : List Backend) (hid : ∀ b ∈ bs, b.BackendID ≠ []) :
    mostSpecific path bs = none ↔ matching path bs = [] := by
  exact mostSpecific_none_iff path bs hid

/-- the chosen backend is registered and owns a prefix of the path -/
theorem chosen_is_registered (path : Bytes) (bs : List Backend) (hid : ∀ b ∈ bs, b.BackendID ≠ []) (id : Bytes)
    (h : mostSpecific path bs = some id) :
    ∃ b ∈ bs, b.BackendID = id ∧ ∃ q ∈ b.PathPrefixes, q <+: path := by
  exact mostSpecific_registered path bs hid id h

/-- an empty prefix matches every path -/
theorem empty_prefix_matches_all (path : Bytes) (bs : List Backend) (hid : ∀ b ∈ bs, b.BackendID ≠ [])
    (b : Backend) (hb : b ∈ bs) (he : [] ∈ b.PathPrefixes) : (mostSpecific path bs).isSome := by
  cases hm : mostSpecific path bs with
  | some _ => rfl
  | none =>
    have hmem : (b.BackendID, ([] : Bytes)) ∈ matching path bs :=
      mem_matching.2 ⟨b, hb, rfl, he, List.nil_prefix⟩
    rw [(mostSpecific_none_iff path bs hid).1 hm] at hmem
    cases hmem

/-- Glue (tie T2): the hand-written `lookup`/`lookupShared` are the decisions regenerated from
    `persistentStore.LookupBackend` / `lookupSharedBackend`, applied to the most specific match
    among the user's (resp. the allUsers) backends and to the liveness test.  A change such as
    "fall back to the shared backends when the user's own match is not live" breaks this. -/
theorem gen_lookupShared_eq (s : Store) (path : Bytes) (now : Int) :
    lookupShared s path now =
      store_lookupSharedBackend false (mostSpecific path (ofUser s store_sharedBackendUser)) (fun b => live s b now) none := by
  unfold lookupShared store_lookupSharedBackend
  cases mostSpecific path (ofUser s store_sharedBackendUser) <;> simp [Id.run, pure] <;> split <;> rfl

theorem gen_lookup_eq (s : Store) (user path : Bytes) (now : Int) :
    lookup s user path now =
      store_LookupBackend false (mostSpecific path (ofUser s user)) (fun b => live s b now) (lookupShared s path now) := by
  unfold lookup store_LookupBackend
  cases mostSpecific path (ofUser s user) <;> simp [Id.run, pure] <;> split <;> rfl

/-- a datastore error while listing the backends is a 404, never a guess -/
theorem query_error_routes_nowhere (m : Option Bytes) (lv : Bytes → Bool) (sh : Option Bytes) :
    store_LookupBackend true m lv sh = none ∧ store_lookupSharedBackend true m lv sh = none := by
  simp [store_LookupBackend, store_lookupSharedBackend, Id.run, pure]

/-- T1: `proxyHandler` routes on the decoded URL path, so every escaped spelling of a path is
    routed alike ("the choice depends only on backends, user and path"). -/
theorem routes_on_decoded_path : app_lookupPathArg = "r.URL.Path" := by decide

/-- a user's own match always takes precedence: shared backends are not consulted -/
theorem user_before_shared (s : Store) (user path : Bytes) (now : Int) (b : Bytes)
    (h : mostSpecific path (ofUser s user) = some b) :
    lookup s user path now = if live s b now then some b else none := by
  simp [lookup, h]

/-- shared backends are used exactly when the user has no matching prefix -/
theorem shared_fallback (s : Store) (user path : Bytes) (now : Int)
    (h : mostSpecific path (ofUser s user) = none) :
    lookup s user path now = lookupShared s path now := by
  simp [lookup, h]

/-- only backends of the user or shared with all users are ever chosen -/
theorem routed_backend_owner (s : Store) (user path : Bytes) (now : Int) (id : Bytes)
    (hid : ∀ b ∈ s.backends, b.BackendID ≠ [])
    (h : lookup s user path now = some id) :
    ∃ b ∈ s.backends, b.BackendID = id ∧ (b.EndUser = user ∨ b.EndUser = store_sharedBackendUser) := by
  rcases (lookup_some h).1 with h1 | h1
  · obtain ⟨b, hb, h2, h3⟩ := mostSpecific_ofUser hid h1
    exact ⟨b, hb, h2, Or.inl h3⟩
  · obtain ⟨b, hb, h2, h3⟩ := mostSpecific_ofUser hid h1
    exact ⟨b, hb, h2, Or.inr h3⟩

/-- liveness window: a routed backend was seen less than `backendTimeout` (5 min) ago -/
theorem liveness_window (s : Store) (user path : Bytes) (now : Int) (id : Bytes)
    (h : lookup s user path now = some id) :
    ∃ t, s.lastSeen id = some t ∧ now - t < 300000000000 := by
  have hl := (lookup_some h).2
  unfold live at hl
  split at hl
  · next t ht =>
    refine ⟨t, ht, ?_⟩
    have := of_decide_eq_true hl
    simpa [store_backendTimeout] using this
  · cases hl

/-- a dead best match yields 404 — there is no fall-back to the second best -/
theorem dead_best_is_404 (s : Store) (user path : Bytes) (now : Int) (b : Bytes)
    (h : mostSpecific path (ofUser s user) = some b) (hd : live s b now = false) :
    lookup s user path now = none := by
  simp [lookup, h, hd]

/-- the choice depends only on (backends, last-seen times, user, path, now) — `lookup` is a
    function of exactly these — and not on the tracker of any other backend -/
theorem deterministic (s s' : Store) (user path : Bytes) (now : Int)
    (hb : s.backends = s'.backends) (hl : ∀ b ∈ s.backends, s.lastSeen b.BackendID = s'.lastSeen b.BackendID)
    (hid : ∀ b ∈ s.backends, b.BackendID ≠ []) :
    lookup s user path now = lookup s' user path now := by
  exact lookup_congr hb hl hid user path now

/-- Tenant isolation of the routing decision: registering, changing or removing a backend that belongs to some *other*
    user (neither the requesting user nor the shared `allUsers` owner), at any position of the datastore listing, never
    changes where this user's request is routed — for every path, time and store. -/
theorem other_users_backends_irrelevant (s : Store) (pre post : List Backend) (extra : Backend) (user path : Bytes) (now : Int)
    (hs : s.backends = pre ++ post)
    (h1 : (extra.EndUser == user) = false) (h2 : (extra.EndUser == store_sharedBackendUser) = false) :
    lookup { s with backends := pre ++ extra :: post } user path now = lookup s user path now := by
  have e1 : ofUser { s with backends := pre ++ extra :: post } user = ofUser s user := by
    simp [ofUser, hs, List.filter_append, h1]
  have e2 : ofUser { s with backends := pre ++ extra :: post } store_sharedBackendUser = ofUser s store_sharedBackendUser := by
    simp [ofUser, hs, List.filter_append, h2]
  unfold lookup lookupShared
  rw [e1, e2]
  rfl

/-- what proxyHandler answers with, as a function of the order of its two look-ups -/
inductive Answer where
  | notFound | fromCache | forward (backend : Bytes)
  deriving DecidableEq, Repr

def handlerAnswer (lookupFirst : Bool) (route : Option Bytes) (isGet cached : Bool) : Answer :=
  if lookupFirst then
    match route with
    | none => .notFound
    | some b => if isGet && cached then .fromCache else .forward b
  else if isGet && cached then .fromCache
  else match route with
    | none => .notFound
    | some b => .forward b

/-- regenerated fact: in proxyHandler the routing decision (s.LookupBackend) comes before the first call that can
    answer the client (readCachedResponse / memcache.Get / forwardResponse) -/
theorem routing_precedes_every_answer : app_lookupPrecedesAnswers = true := by decide

/-- hence, without a live matching backend the answer is 404 whatever earlier requests left in the cache -/
theorem no_route_is_404 (isGet cached : Bool) :
    handlerAnswer app_lookupPrecedesAnswers none isGet cached = .notFound := by
  simp [routing_precedes_every_answer, handlerAnswer]

/-- with the other order the same request would be answered from the cache (why the order matters) -/
theorem cache_first_counterexample : handlerAnswer false none true true = .fromCache := by decide

-- non-vacuity
example : mostSpecific [47,97,47,98] [⟨[49],[],[117],[[47],[47,97]]⟩, ⟨[50],[],[117],[[47,97,47]]⟩] = some [50] := by decide
example : mostSpecific [47,97,47,98] [⟨[49],[],[117],[[47,97]]⟩, ⟨[50],[],[117],[[47,97]]⟩] = some [49] := by decide
example : mostSpecific [47,120] [⟨[49],[],[117],[[47,97]]⟩] = none := by decide

end InvProxy.C18
