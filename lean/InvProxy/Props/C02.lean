/-
  C02 — the backend receives the client's request unaltered.  Property theorems only.
-/
import InvProxy.Model.ReqPath
import InvProxy.Props.C09
import InvProxy.Proofs.ReqPath
namespace InvProxy.C02
open InvProxy InvProxy.ReqPath InvProxy.Gen

/-- the proxy's hop-by-hop predicate is exactly the RFC list, case-insensitively -/
theorem hop_table_exact (name : Bytes) : server_isHopByHopHeader name = specHop.contains (Go.toLower name) := by
  simp only [server_isHopByHopHeader, Id.run, specHop, List.contains_cons, List.contains_nil]
  generalize Go.toLower name = m
  simp [Bool.or_assoc]
  split <;> simp_all [pure]

/-- the proxy's request filter removes every hop-by-hop field — by name … -/
theorem filter_removes_hop (h : Hdr) (hwf : RespPath.WF h) (k : Bytes) (hk : server_isHopByHopHeader k = true) :
    Hdr.values (server_filterRequestHeader h) k = [] :=
  ReqPathP.filter_values_hop h hwf k hk

/-- … or because the client's `Connection` header nominates it (any field name, any case,
    among other options) … -/
theorem filter_removes_nominated (h : Hdr) (hwf : RespPath.WF h) (k : Bytes) (hk : k ∈ Hdr.connDrops h) :
    Hdr.values (server_filterRequestHeader h) k = [] := by
  have _ := hwf   -- not needed: deleting by key works on any header map
  exact ReqPathP.filter_values_nominated h k hk

/-- … and leaves every other field exactly as it was: same values, same order -/
theorem filter_keeps_others (h : Hdr) (hwf : RespPath.WF h) (k : Bytes) (hk : server_isHopByHopHeader k = false)
    (hn : k ∉ Hdr.connDrops h) :
    Hdr.values (server_filterRequestHeader h) k = Hdr.values h k :=
  ReqPathP.filter_values_keep h hwf k hk hn

theorem filter_wf (h : Hdr) (hwf : RespPath.WF h) : RespPath.WF (server_filterRequestHeader h) :=
  ReqPathP.filter_wf h hwf

/-- End to end with the default agent configuration (no identity forwarding, no credential
    stripping): same method, same request target, same Host, same body, and every
    end-to-end header field the client sent (not hop-by-hop by name, not nominated in the
    client's `Connection` header) arrives with the same values in the same order. -/
theorem req_fidelity (wire rp : ReqM → ReqM) (hw : StdReqSpec wire) (hr : StdReqSpec rp) (q : ReqM) (hwf : RespPath.WF q.hdr)
    (k : Bytes) (hsent : Hdr.values q.hdr k ≠ []) (hk : server_isHopByHopHeader k = false) (hf : k ∉ framing)
    (hn : k ∉ Hdr.connDrops q.hdr) :
    let b := backendSees wire rp ⟨false, false, []⟩ q
    b.method = q.method ∧ b.target = q.target ∧ b.host = q.host ∧ b.body = q.body ∧
    Hdr.values b.hdr k = Hdr.values q.hdr k := by
  have e0 : Hdr.values (proxyFilter q).hdr k = Hdr.values q.hdr k := filter_keeps_others q.hdr hwf k hk hn
  have c0 : Hdr.values (proxyFilter q).hdr Hdr.connKey = [] :=
    filter_removes_hop q.hdr hwf _ ReqPathP.conn_is_hop
  have c1 : Hdr.values (wire (proxyFilter q)).hdr Hdr.connKey = [] :=
    hw.drops_hop _ _ c0 ReqPathP.conn_is_hop
  have e1 : Hdr.values (wire (proxyFilter q)).hdr k = Hdr.values q.hdr k := by
    rw [hw.keeps _ k (by rw [e0]; exact hsent) hk hf (ReqPathP.not_mem_connDrops _ c0 k), e0]
  have ea : agentEdit ⟨false, false, []⟩ (wire (proxyFilter q)) = wire (proxyFilter q) := by
    simp only [agentEdit, C09.flags_off_identity]
  have e2 : Hdr.values (rp (wire (proxyFilter q))).hdr k = Hdr.values q.hdr k := by
    rw [hr.keeps _ k (by rw [e1]; exact hsent) hk hf (ReqPathP.not_mem_connDrops _ c1 k), e1]
  simp only [backendSees, ea]
  refine ⟨?_, ?_, ?_, ?_, e2⟩
  · rw [hr.method, hw.method]; rfl
  · rw [hr.target, hw.target]; rfl
  · rw [hr.host, hw.host]; rfl
  · rw [hr.body, hw.body]; rfl

/-- hop-by-hop fields are not forwarded: neither the standard ones … -/
theorem hop_not_forwarded (wire rp : ReqM → ReqM) (hw : StdReqSpec wire) (hr : StdReqSpec rp) (cfg : AgentCfg) (q : ReqM)
    (hwf : RespPath.WF q.hdr) (k : Bytes) (hk : server_isHopByHopHeader k = true)
    (hku : k ≠ C09.userKey) :
    Hdr.values (backendSees wire rp cfg q).hdr k = [] := by
  have e0 : Hdr.values (proxyFilter q).hdr k = [] := filter_removes_hop q.hdr hwf k hk
  have e1 : Hdr.values (wire (proxyFilter q)).hdr k = [] := hw.drops_hop _ k e0 hk
  have e2 : Hdr.values (agentEdit cfg (wire (proxyFilter q))).hdr k = [] := by
    simp only [agentEdit, C09.fwd_eq]
    have e3 : Hdr.values (if cfg.forwardUserID = true then
          Hdr.dropConnOption (Hdr.set (wire (proxyFilter q)).hdr C09.userKey cfg.user) utils_HeaderUserID
        else (wire (proxyFilter q)).hdr) k = [] := by
      split
      · apply ConnOpt.values_drop_nil
        rw [Hdr.values_set_ne _ _ _ _ hku]; exact e1
      · exact e1
    split
    · exact ReqPathP.values_del_nil _ _ _ e3
    · exact e3
  exact hr.drops_hop _ k e2 hk

/-- … nor a field the client nominated in `Connection` — provided nothing on the way supplies a
    field of that name itself (`StdReqSpec.adds_only_defaults`: the standard-library stages add
    only defaults such as User-Agent or Accept-Encoding where the client sent none). -/
theorem nominated_not_forwarded (wire rp : ReqM → ReqM) (hw : StdReqSpec wire) (hr : StdReqSpec rp) (q : ReqM)
    (hwf : RespPath.WF q.hdr) (k : Bytes) (hk : k ∈ Hdr.connDrops q.hdr)
    (hd : k ∉ defaults) (hf : k ∉ framing) :
    Hdr.values (backendSees wire rp ⟨false, false, []⟩ q).hdr k = [] := by
  have e0 : Hdr.values (proxyFilter q).hdr k = [] := filter_removes_nominated q.hdr hwf k hk
  have e1 : Hdr.values (wire (proxyFilter q)).hdr k = [] := hw.adds_only_defaults _ k e0 hd hf
  have ea : agentEdit ⟨false, false, []⟩ (wire (proxyFilter q)) = wire (proxyFilter q) := by
    simp only [agentEdit, C09.flags_off_identity]
  simp only [backendSees, ea]
  exact hr.adds_only_defaults _ k e1 hd hf

/-- T1 (wiring the request-path model assumes): the agent forwards through a Director-mode
    `httputil.NewSingleHostReverseProxy` — whose only header edits are the hop-by-hop removal
    modelled in `ReqPath` — not through a `Rewrite`-mode proxy, which deletes the client's
    `Forwarded` / `X-Forwarded-*` fields first. -/
theorem agent_forwards_in_director_mode : agent_hostProxyIsDirectorMode = true := by decide

-- non-vacuity
example : server_isHopByHopHeader [84,69] = true ∧ server_isHopByHopHeader [67,111,111,107,105,101] = false := by decide
example : server_filterRequestHeader [([85,112,103,114,97,100,101], [[104]]), ([88,45,65], [[49],[50]])] = [([88,45,65], [[49],[50]])] := by decide
-- `Connection: close, x-hop` nominates X-Hop: it is removed together with Connection, X-Keep stays
example : server_filterRequestHeader [(Hdr.connKey, [[99,108,111,115,101,44,32,120,45,104,111,112]]), ([88,45,72,111,112], [[49]]), ([88,45,75,101,101,112], [[50]])] =
    [([88,45,75,101,101,112], [[50]])] := by decide

end InvProxy.C02
