/-
  C19 (part 2) — relay through the App Engine proxy's store.  Property theorems only.
  (Part 1, blob storage, is Props/C19.lean.)
-/
import InvProxy.Model.AppAuth
import InvProxy.Proofs.AppAuth
namespace InvProxy.C19
open InvProxy InvProxy.AppAuth InvProxy.Gen

/-- The bytes an agent fetches for a request ID are exactly the client's stored request. -/
theorem fetch_is_request (s : St) (c a : Caller) (ls : Bytes → Option Int) (now : Int) (rid : Rid) (path contents : Bytes) (b : Bid)
    (hr : rid ≠ [])
    (hp : (userPost s c ls now rid path contents).2.1 = some b)
    (ha : (agentCall (userPost s c ls now rid path contents).2.2 a .fetch b rid []).1 ≠ 401) :
    ∃ u, (agentCall (userPost s c ls now rid path contents).2.2 a .fetch b rid []).2.1 = .request u contents := by
  obtain ⟨u, _, _, hs⟩ := userPost_some hp
  rw [hs] at ha ⊢
  refine ⟨u, ?_⟩
  rcases agentCall_cases _ a .fetch b rid [] with ⟨e, _, h1⟩ | ⟨_, h1⟩
  · rw [h1] at ha; exact absurd rfl ha
  · rw [h1]; simp [agentOk, hr, getReq]

/-- request IDs are fresh: App Engine request-log IDs are unique, so no two stored requests share an ID -/
def RidFresh (s : St) : Prop := (s.reqs.map (·.1.2)).Nodup

/-- The waiting client of request `rid` only ever receives a response that an agent authorised
    for the request's own backend posted under that very ID — never another request's
    response — in every sequence of agent calls by any callers. -/
inductive Call where
  | agent (c : Caller) (ep : AgentEp) (b : Bid) (r : Rid) (p : Bytes)
  deriving DecidableEq, Repr

def runCalls (s : St) : List Call → St
  | [] => s
  | .agent c ep b r p :: t => runCalls (agentCall s c ep b r p).2.2 t

theorem app_correlation (s : St) (calls : List Call) (rid : Rid) (v : Bytes)
    (h0 : getResp s.resps rid = none)
    (h : (userPoll (runCalls s calls) rid) = (200, .response v)) :
    ∃ c b, Call.agent c .respond b rid v ∈ calls ∧ v ≠ [] := by
  obtain ⟨hg, hv⟩ := userPoll_200 h
  have key : ∀ (calls : List Call) (s : St), getResp (runCalls s calls).resps rid = some v →
      getResp s.resps rid = some v ∨ ∃ c b, Call.agent c .respond b rid v ∈ calls := by
    intro calls
    induction calls with
    | nil => intro s h1; exact Or.inl h1
    | cons x t ih =>
      intro s h1
      cases x with
      | agent c ep b r p =>
        simp only [runCalls] at h1
        rcases ih _ h1 with h2 | ⟨c', b', h2⟩
        · rcases getResp_agentCall h2 with h3 | ⟨h3, h4, h5⟩
          · exact Or.inl h3
          · subst h3 h4 h5
            exact Or.inr ⟨c, b, List.mem_cons_self⟩
        · exact Or.inr ⟨c', b', List.mem_cons_of_mem _ h2⟩
  rcases key calls s hg with h1 | ⟨c, b, h1⟩
  · rw [h0] at h1; cases h1
  · exact ⟨c, b, h1, hv⟩

/-- … and that agent was authorised for a backend under which the request exists -/
theorem response_only_from_owner (s : St) (c : Caller) (b : Bid) (r : Rid) (p : Bytes)
    (h : getResp (agentCall s c .respond b r p).2.2.resps r ≠ getResp s.resps r) :
    (∃ be, findBackend s.backends b = some be ∧ c.oauth = some be.BackendUser) ∧ (getReq s.reqs (b, r)).isSome := by
  rcases agentCall_respond s c b r p with ⟨_, h1⟩ | ⟨_, hc, _, h2, _, _⟩
  · rw [h1] at h; exact absurd rfl h
  · obtain ⟨_, _, be, h3, h4⟩ := (checkBackendID_ok_iff s c b b).1 hc
    exact ⟨⟨be, h3, h4⟩, h2⟩

/-- with fresh request IDs an agent of another backend can neither fetch nor answer the request -/
theorem cross_backend_isolated (s : St) (c : Caller) (b b' : Bid) (r : Rid) (p : Bytes) (hf : RidFresh s)
    (hreq : (getReq s.reqs (b, r)).isSome) (hne : b' ≠ b) :
    (agentCall s c .fetch b' r []).1 ≠ 200 ∧ (agentCall s c .respond b' r p).2.2.resps = s.resps := by
  have hnone : getReq s.reqs (b', r) = none := getReq_other_backend_none hf hreq hne
  constructor
  · rcases agentCall_cases s c .fetch b' r [] with ⟨e, _, h1⟩ | ⟨_, h1⟩
    · rw [h1]; simp
    · rw [h1]; unfold agentOk
      by_cases hr : r = []
      · simp [hr]
      · simp [hr, hnone]
  · rcases agentCall_respond s c b' r p with ⟨_, h1⟩ | ⟨_, _, _, h2, _, _⟩
    · rw [h1]
    · rw [hnone] at h2; cases h2

/-- a completed request is no longer listed as pending -/
theorem completed_not_listed (s : St) (c : Caller) (b : Bid) (r : Rid) (p : Bytes)
    (h : (agentCall s c .respond b r p).1 = 200) :
    r ∉ pendingOf (agentCall s c .respond b r p).2.2 b := by
  rcases agentCall_respond s c b r p with ⟨h1, _⟩ | ⟨_, _, _, _, _, h2⟩
  · exact absurd h h1
  · unfold pendingOf; rw [h2]
    exact not_pending_after_markDone s.reqs b r

/-- no response in time ⇒ 504 -/
theorem timeout_504 (s : St) (rid : Rid) (h : getResp s.resps rid = none) : (userPoll s rid).1 = 504 := by
  unfold userPoll; rw [h]

/-- Storage errors never leave the call hanging: with room for both error reports, from
    every reachable state of `postResponse` some goroutine can move until both are done —
    for every combination of failing store writes and every interleaving. -/
theorem post_response_terminates (cap : Nat) (hc : 2 ≤ cap) (acts : List PRAct) (s : PR)
    (h : prRun { cap := cap, buf := 0, a := 0, b := 0 } acts = some s) (hn : prDone s = false) : prEnabled s = true := by
  exact prInv_enabled hc (prRun_inv acts (prInv_init cap) h) hn

/-- the defect found in the original code: capacity 1, both writes fail, the second sender blocks forever -/
theorem post_response_hang_counterexample :
    (prRun { cap := 1, buf := 0, a := 0, b := 0 } [.aFinish true, .bFinish true, .aSend]).map (fun s => (prDone s, prEnabled s)) =
      some (false, false) := by decide

/-- T3/T1: the error channel of `responseHandler` has room for both concurrent writers of `postResponse` -/
theorem err_chan_capacity :
    Skel.chanCap "notFoundErrs" skel_app_responseHandler = some 2 ∧
    Skel.count .goStart skel_app_postResponse = 2 ∧
    Skel.count (.send "errChan") skel_app_postResponse = 3 ∧
    Skel.waits "wg" skel_app_postResponse = true := by decide

end InvProxy.C19
