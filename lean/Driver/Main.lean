import Driver.Util
import InvProxy.Model.Backoff
import InvProxy.Model.Bridge
open InvProxy Driver

/-- suite `backoff`: `target <n>` ↦ un-jittered target in ns;  `loop <pattern of 0/1>` ↦ retry counts slept with -/
def backoffStep (_ : Unit) : List String → Unit × String
  | ["maxretry"] => ((), toString Gen.utils_maxRetryCountU)
  | ["target", n] => ((), toString (Gen.utils_backoffTarget (BitVec.ofNat 64 (natD n))).toNat)
  | ["loop", pat] =>
    let fs := pat.toList.map (· == '1')
    let r := Backoff.runLoop 0#64 fs
    ((), " ".intercalate (r.map (fun o => match o with | none => "-" | some c => toString c.toNat)))
  | _ => ((), "bad-op")

/-- suite `bridgeconn`: `new` | `w <hex>` | `inject <hex>` | `r <n>` on one direction of a bridged connection -/
def bridgeStep (r : Bridge.Reader) : List String → Bridge.Reader × String
  | ["new"] => ({ buffered := [], inbox := [] }, "ok")
  | ["w", h] => let bs := unhexD h; ({ r with inbox := r.inbox ++ [Bridge.write bs] }, s!"ok {bs.length}")
  | ["inject", h] => ({ r with inbox := r.inbox ++ [.other (unhexD h)] }, "ok")
  | ["r", n] =>
    match Bridge.read (natD n) r with
    | .data bs r' => (r', "data " ++ hexOf bs)
    | .block => (r, "block")
    | .err => (r, "err")
  | _ => (r, "bad-op")

def main (args : List String) : IO UInt32 := do
  let stdin ← IO.getStdin
  let stdout ← IO.getStdout
  match args with
  | ["backoff"] => loop stdin stdout backoffStep (); return 0
  | ["bridgeconn"] => loop stdin stdout bridgeStep { buffered := [], inbox := [] }; return 0
  | _ => IO.eprintln "usage: ipmodel <suite>"; return 2
