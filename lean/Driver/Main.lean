import Driver.Util
import InvProxy.Model.Backoff
import InvProxy.Model.Bridge
import InvProxy.Model.Route
import InvProxy.Model.Seeker
import InvProxy.Model.Dedup
import InvProxy.Model.Inject
import InvProxy.Model.ShimUrl
import InvProxy.Model.Keys
import InvProxy.Model.WsCodec
import InvProxy.Model.Sessions
import InvProxy.Model.Relay
import InvProxy.Model.ShimLife
import InvProxy.Model.RespPath
import InvProxy.Model.AppAuth
import InvProxy.Model.Lifecycle
open InvProxy Driver

/-- suite `backoff`: `target <n>` ↦ un-jittered target in ns;  `loop <pattern of 0/1>` ↦ retry counts slept with -/
def backoffStep (_ : Unit) : List String → Unit × String
  | ["maxretry"] => ((), toString Gen.utils_maxRetryCountU)
  | ["target", n] => ((), toString (Gen.utils_backoffTarget (BitVec.ofNat 64 (natD n))).toNat)
  | ["loop", pat] =>
    let fs := pat.toList.map (· == '1')
    let r := Backoff.runLoop 0#64 fs
    ((), " ".intercalate (r.map (fun o => match o with | none => "-" | some c => toString c.toNat)))
  | _ => ((), "bad-op")

/-- suite `bridgeconn`: `new` | `w <hex>` | `inject <hex>` | `r <n>` on one direction of a bridged connection -/
def bridgeStep (r : Bridge.Reader) : List String → Bridge.Reader × String
  | ["new"] => ({ buffered := [], inbox := [] }, "ok")
  | ["w", h] => let bs := unhexD h; ({ r with inbox := r.inbox ++ [Bridge.write bs] }, s!"ok {bs.length}")
  | ["inject", h] => ({ r with inbox := r.inbox ++ [.other (unhexD h)] }, "ok")
  | ["r", n] =>
    match Bridge.read (natD n) r with
    | .data bs r' => (r', "data " ++ hexOf bs)
    | .block => (r, "block")
    | .err => (r, "err")
  | _ => (r, "bad-op")

/-- `id:p,p;id:p` with hex fields; `-` = no backends, `.` = no prefixes -/
def parseBackends (s : String) : List Backend :=
  if s == "-" then [] else
  (s.splitOn ";").map fun b =>
    match b.splitOn ":" with
    | [id, ps] => { BackendID := unhexD id, BackendUser := [], EndUser := [], PathPrefixes := if ps == "." then [] else (ps.splitOn ",").map unhexD }
    | _ => { BackendID := [], BackendUser := [], EndUser := [], PathPrefixes := [] }

/-- suite `route`: `ms <path> <backends>` ↦ chosen backend id or `none` (through the generated definition) -/
def routeStep (_ : Unit) : List String → Unit × String
  | ["ms", p, bs] =>
    match Gen.store_mostSpecificMatchingBackend (unhexD p) (parseBackends bs) with
    | some id => ((), hexOf id)
    | none => ((), "none")
  | _ => ((), "bad-op")

/-- suite `seeker`: `new <cap>` | `read <n> <d>` | `seek` -/
def seekerStep (s : Seeker.St) : List String → Seeker.St × String
  | ["new", c] => (Seeker.init (natD c), "ok")
  | ["read", n, d] =>
    let (s', out) := Seeker.read s (natD n) (unhexD d)
    (s', s!"out {hexOf out} wh={s'.buf.length} rh={s'.readHead}")
  | ["seek"] =>
    match Seeker.seek0 s with
    | some s' => (s', "ok")
    | none => (s, "refused")
  | _ => (s, "bad-op")

/-- suite `lru`: `new <cap>` | `t <key>` ↦ hit/miss, evicted key, length -/
def lruStep (st : Nat × List String) : List String → (Nat × List String) × String
  | ["new", c] => ((natD c, []), "ok")
  | ["t", k] =>
    let (cap, l) := st
    let hit := l.contains k
    let l' := Lru.touch cap l k
    let full := k :: l.erase k
    let ev := if full.length > l'.length then (full.getLast?).getD "-" else "-"
    ((cap, l'), s!"{if hit then "hit" else "miss"} evicted={ev} len={l'.length}")
  | _ => (st, "bad-op")

/-- suite `dedup`: `new <cap>` | `list id…` | `spawned` ↦ sorted spawned IDs -/
def dedupStep (st : Nat × List String × List String) : List String → (Nat × List String × List String) × String
  | ["new", c] => ((natD c, [], []), "ok")
  | "list" :: ids =>
    let (cap, l, sp) := st
    let (l', sp') := ids.foldl (Dedup.step cap) (l, sp)
    ((cap, l', sp'), "ok")
  | ["spawned"] =>
    let (_, _, sp) := st
    (st, " ".intercalate (sp.toArray.qsort (· < ·)).toList)
  | _ => (st, "bad-op")

def pageMarker : Bytes := "\x00PAGE-MARKER-7f3a\x00".toUTF8.toList

def parseHop (s : String) : Option Inject.Op :=
  match s.splitOn ":" with
  | ["S", k, v] => some (.setHeader (unhexD k) (unhexD v))
  | ["A", k, v] => some (.addHeader (unhexD k) (unhexD v))
  | ["D", k] => some (.delHeader (unhexD k))
  | ["H", c] => some (.writeHeader (Int.ofNat (natD c)))
  | ["W", d] => some (.write (unhexD d))
  | _ => none

def showEv : Inject.Ev → String
  | .head c h => s!"head:{c}:{canonHeader (h.filter (fun p => p.1 != "Date".toUTF8.toList))}"
  | .interim c h => s!"interim:{c}:{canonHeader (h.filter (fun p => p.1 != "Date".toUTF8.toList))}"
  | .body b => if b == pageMarker then "body:PAGE" else "body:" ++ hexOf b

/-- suite `banner`: `banner <method> <accept|-> <framed> <ops>` ↦ events at the outer writer -/
def bannerStep (_ : Unit) : List String → Unit × String
  | ["banner", m, acc, fr, ops] =>
    let hdr : Hdr := if acc == "-" then [] else [(Go.canon "Accept".toUTF8.toList, [unhexD acc])]
    let r : Req := { Method := unhexD m, Header := hdr, Host := [], URL := ⟨[]⟩ }
    let cfg : Inject.Cfg := { alreadyFramed := fr == "1", page := pageMarker, date := [] }
    let hops := if ops == "-" then [] else (ops.splitOn ";").filterMap parseHop
    ((), ";".intercalate ((Inject.bannered cfg r [] hops).map showEv))
  | _ => ((), "bad-op")

/-- suite `splice`: `code <hex>` | `splice <ct|-> <first> <rest>` -/
def spliceStep (code : Bytes) : List String → Bytes × String
  | ["code", c] => (unhexD c, "ok")
  | ["splice", ct, f, r] =>
    let (out, dropped) := Inject.shimBody code (if ct == "-" then [] else unhexD ct) (unhexD f) (unhexD r)
    (code, s!"{hexOf out} cl={if dropped then "false" else "true"}")
  | _ => (code, "bad-op")

/-- `hexkey=hexv,hexv;…` (vh.CanonHeader) back into a header map -/
def parseCanonHeader (s : String) : Hdr :=
  if s == "{}" then [] else
  (s.splitOn ";").map fun kv =>
    match kv.splitOn "=" with
    | [k, vs] => (unhexD k, (vs.splitOn ",").map unhexD)
    | _ => ([], [])

/-- suite `identity`: `fwd <fu> <sc> <user> <header>` ↦ header after the regenerated edits of forwardRequest -/
def identityStep (_ : Unit) : List String → Unit × String
  | ["fwd", fu, sc, u, h] =>
    ((), canonHeader (Gen.agent_forwardRequestHeader (fu == "1") (sc == "1") (unhexD u) (parseCanonHeader h)))
  | _ => ((), "bad-op")

/-- suite `shimurl`: `open <scheme> <opaque> <hasUser> <host> <backend> <reparseOk>` | `route <prefix> <path>` -/
def shimurlStep (_ : Unit) : List String → Unit × String
  | ["open", sch, op, usr, host, backend, ok] =>
    let u : WsUrl := { Scheme := unhexD sch, Opaque := unhexD op, User := if usr == "1" then some [] else none, Host := unhexD host,
                       Path := [], RawPath := [], OmitHost := false, ForceQuery := false, RawQuery := [], Fragment := [], RawFragment := [] }
    match ShimUrl.dialOutcome (ok == "1") (Gen.websockets_rewriteTarget (unhexD backend) u) with
    | .refused => ((), "refused")
    | .dial h => ((), if h == unhexD backend then "dial" else "foreign")
    | .foreign => ((), "foreign")
  | ["route", pre, p] =>
    match ShimUrl.route (unhexD pre) (unhexD p) with
    | .shim => ((), "shim")
    | .wrapped => ((), "wrapped")
  | _ => ((), "bad-op")

/-- suite `blob`: `shape <len>` → inlined length and number of part entities of `newBlob` for a payload of that length -/
def blobStep (_ : Unit) : List String → Unit × String
  | ["shape", n] =>
    let len := natD n
    if Gen.store_inlineTest len then ((), s!"inlined={len} parts=0")
    else ((), s!"inlined={Gen.store_fieldByteLimit} parts={Gen.store_partCount (len - Gen.store_fieldByteLimit)}")
  | _ => ((), "bad-op")

/-- suite `quote`: `q <hex>` → `%q` of the bytes | `key <fmt-hex> <a-hex> <b-hex>` → fmt.Sprintf(fmt, a, b) for two-verb formats -/
def quoteStep (_ : Unit) : List String → Unit × String
  | ["q", h] => ((), hexOf (Keys.quote (unhexD h)))
  | ["key", f, a, b] =>
    match Keys.parse2 (unhexD f) with
    | some fm => ((), hexOf (fm.key (unhexD a) (unhexD b)))
    | none => ((), "bad-format")
  | _ => ((), "bad-op")

/-- suite `wscodec`: `ser t|b <hex>` (server→client serialisation) | `dec <shape> [<hex>]` (client→server decoding) -/
def showDecoded : WsCodec.Decoded → String
  | .msg (.text d) => "text " ++ hexOf d
  | .msg (.binary d) => "binary " ++ hexOf d
  | .skip => "skip"
  | .error => "error"

def wscodecStep (_ : Unit) : List String → Unit × String
  | ["ser", k, h] =>
    let m : WsCodec.Msg := if k == "t" then .text (unhexD h) else .binary (unhexD h)
    match WsCodec.serialize m with
    | .str s => ((), "str " ++ hexOf s)
    | .arr [.str s] => ((), "arr1 " ++ hexOf s)
    | _ => ((), "other")
  | ["dec", "str", h] => ((), showDecoded (WsCodec.decodeClient (.str (unhexD h))))
  | ["dec", "arr1", h] => ((), showDecoded (WsCodec.decodeClient (.arr [.str (unhexD h)])))
  | ["dec", "num"] => ((), showDecoded (WsCodec.decodeClient (.num [53])))
  | ["dec", "obj"] => ((), showDecoded (WsCodec.decodeClient (.obj [([97], .num [49])])))
  | ["dec", "arr0"] => ((), showDecoded (WsCodec.decodeClient (.arr [])))
  | ["dec", "arr2"] => ((), showDecoded (WsCodec.decodeClient (.arr [.str [81,81,61,61], .str [81,81,61,61]])))
  | ["dec", "arrnum"] => ((), showDecoded (WsCodec.decodeClient (.arr [.num [53]])))
  | _ => ((), "bad-op")

/-- token form of JSON values shared with the Go driver -/
partial def parseJ : List String → Option (WsCodec.J × List String)
  | "n" :: t => some (.null, t)
  | "t" :: t => some (.bool true, t)
  | "f" :: t => some (.bool false, t)
  | "[" :: t => parseArr t []
  | "{" :: t => parseObj t []
  | tok :: t =>
    if tok.startsWith "#" then some (.num (unhexD (String.ofList (tok.toList.drop 1))), t)
    else if tok.startsWith "s" then some (.str (unhexD (String.ofList (tok.toList.drop 1))), t)
    else none
  | [] => none
where
  parseArr : List String → List WsCodec.J → Option (WsCodec.J × List String)
    | "]" :: t, acc => some (.arr acc.reverse, t)
    | ts, acc => match parseJ ts with | some (v, t) => parseArr t (v :: acc) | none => none
  parseObj : List String → List (Bytes × WsCodec.J) → Option (WsCodec.J × List String)
    | "}" :: t, acc => some (.obj acc.reverse, t)
    | k :: ts, acc => match parseJ ts with | some (v, t) => parseObj t ((unhexD k, v) :: acc) | none => none
    | [], _ => none

def insertKV (x : Bytes × WsCodec.J) : List (Bytes × WsCodec.J) → List (Bytes × WsCodec.J)
  | [] => [x]
  | y :: t => if bytesLt x.1 y.1 then x :: y :: t else y :: insertKV x t

partial def showJ : WsCodec.J → String
  | .null => "n" | .bool true => "t" | .bool false => "f"
  | .num r => "#" ++ hexOf r | .str s => "s" ++ hexOf s
  | .arr xs => " ".intercalate (["["] ++ xs.map showJ ++ ["]"])
  | .obj fs =>
    let sorted := fs.foldl (fun acc x => insertKV x acc) []
    " ".intercalate (["{"] ++ (sorted.map fun (k, v) => hexOf k ++ " " ++ showJ v) ++ ["}"])

/-- suite `wsinject`: `inject <k=v,…> <tokens…>` ↦ the (possibly unchanged) JSON value the backend receives -/
def wsinjectStep (_ : Unit) : List String → Unit × String
  | "inject" :: hs :: toks =>
    let pairs : List (Bytes × Bytes) := if hs == "" then [] else (hs.splitOn ",").filterMap fun kv =>
      match kv.splitOn "=" with | [k, v] => some (unhexD k, unhexD v) | _ => none
    match parseJ toks with
    | some (v, _) => match WsCodec.inject pairs v with
      | some v' => ((), showJ v')
      | none => ((), showJ v)
    | none => ((), "parse-error")
  | _ => ((), "bad-op")

/-- A simple cookie jar for the correspondence runs (one host, Path=/, no attributes):
    name ↦ value in order of first creation; `!` after a value = Max-Age=0 = delete. -/
def simpleJar : Sessions.JarOps (List (String × String)) Unit String (String × String) where
  empty := []
  set j _ scs := scs.foldl (fun j sc =>
    let del := sc.endsWith "!"
    let sc := if del then String.ofList (sc.toList.take (sc.length - 1)) else sc
    match sc.splitOn "=" with
    | [n, v] =>
      if del then j.filter (·.1 != n)
      else if j.any (·.1 == n) then j.map (fun p => if p.1 == n then (n, v) else p) else j ++ [(n, v)]
    | _ => j) j
  get j _ := j

def strBytes (s : String) : Bytes := s.toUTF8.toList
def bytesStr (b : Bytes) : String := String.fromUTF8! ⟨b.toArray⟩

/-- suite `sessions`: `new <cap>` | `req <cookies>` | `resp <sid> <fresh> <set-cookies>` -/
def sessionsStep (c : Sessions.Cache (List (String × String))) : List String → Sessions.Cache (List (String × String)) × String
  | ["new", cap] => ({ cap := natD cap, entries := [] }, "ok")
  | ["req", cks] =>
    let cookies : List (Bytes × Bytes) := if cks == "-" then [] else (cks.splitOn ",").filterMap fun kv =>
      match kv.splitOn "=" with | [n, v] => some (strBytes n, strBytes v) | _ => none
    let (c', sid, out) := Sessions.request simpleJar { cookieName := strBytes "sess" } c () cookies
    let shown := out.map fun b => match b with
      | .client n v => bytesStr n ++ "=" ++ bytesStr v
      | .jar (n, v) => n ++ "=" ++ v
    (c', s!"sid={hexOf sid} backend={if shown.isEmpty then "-" else ",".intercalate shown}")
  | ["resp", sid, fresh, scs] =>
    let (c', iss) := Sessions.response simpleJar c (unhexD sid) (unhexD fresh) () (if scs == "-" then [] else scs.splitOn ",")
    (c', s!"issued={if iss.isSome then "1" else "0"}")
  | _ => (c, "bad-op")

/-- suite `relay`: `new` | `arrive c` | `fetch w r` | `upload w` against the atomic-generator LTS -/
def relayStep (s : Relay.St) : List String → Relay.St × String
  | ["new"] => (Relay.init, "ok")
  | ["arrive", c] =>
    match Relay.step .atomic s (.arrive (natD c)) with
    | some s' => (s', "ok")
    | none => (s, "rejected")
  | ["fetch", w, r] =>
    match Relay.step .atomic s (.fetch (natD w) (natD r)) with
    | some s' => (s', match s'.fetched.head? with | some (_, _, c) => s!"200 tok={c}" | none => "200 tok=?")
    | none => (s, "404 tok=")
  | ["drop", w] => ({ s with fetched := s.fetched.filter (·.1 ≠ natD w) }, "ok")
  | ["upload", w] =>
    match s.fetched.find? (·.1 = natD w) with
    | none => (s, "no-such-worker")
    | some (_, r, _) =>
      match Relay.step .atomic s (.upload (natD w)) with
      | none => (s, "no-such-worker")
      | some s1 =>
        match Relay.step .atomic s1 (.deliver r) with
        | some s2 => (s2, match s2.delivered.head? with | some (_, tok) => s!"200 delivered {r} tok={tok}" | none => "?")
        | none => ({ s1 with produced := s1.produced.filter (·.1 ≠ r) }, "blocked")
  | _ => (s, "bad-op")

/-- run internal steps (calls first, then writer, reader, closer) until none is enabled; poll timers are not fired -/
partial def shimSettle (s : ShimLife.St) : ShimLife.St :=
  let cands : List ShimLife.Act := (List.range s.calls.length).map ShimLife.Act.call ++ [.writerStep, .readerStep, .closerStep]
  match cands.findSome? (fun a => ShimLife.step ShimLife.good s a) with
  | some s' => shimSettle s'
  | none => s

def shimLast (s : ShimLife.St) : String :=
  match s.calls.getLast? with
  | some (.answered c) => toString c
  | some _ => "pending"
  | none => "none"

/-- poll repeatedly until a non-200 answer or nothing is left; returns (state, last status, total messages) -/
partial def shimPollLoop (s : ShimLife.St) (total : Nat) (fuel : Nat) (untilClosed : Bool) : ShimLife.St × Nat × Nat :=
  if fuel = 0 then (s, 0, total) else
  let before := s.sq
  let s1 := shimSettle s
  let avail := s1.sq
  match ShimLife.step ShimLife.good s1 .startPoll with
  | none => (s1, 0, total)
  | some s2 =>
    let s3 := shimSettle s2
    match s3.calls.getLast? with
    | some (.answered 200) =>
      let got := avail
      let _ := before
      if !untilClosed && s3.incoming = 0 && s3.sq = 0 then (s3, 200, total + got)
      else shimPollLoop s3 (total + got) (fuel - 1) untilClosed
    | some (.answered c) => (s3, c, total)
    | _ => (s3, 408, total)     -- would wait for the 20 s timer

/-- suite `shimlife` -/
def shimlifeStep (s : ShimLife.St) : List String → ShimLife.St × String
  | ["open"] => (ShimLife.init 10, "200")
  | ["data", n] =>
    match ShimLife.step ShimLife.good s (.startData (natD n)) with
    | some s1 => let s2 := shimSettle s1; (s2, shimLast s2)
    | none => (s, "?")
  | ["close"] =>
    match ShimLife.step ShimLife.good s .startClose with
    | some s1 => let s2 := shimSettle s1; (s2, shimLast s2)
    | none => (s, "?")
  | ["bsend", k] => ({ s with incoming := s.incoming + natD k }, "ok")
  | ["pollall"] => let (s', c, t) := shimPollLoop s 0 400 false; (s', s!"{c} {t}")
  | ["bclose"] =>
    match ShimLife.step ShimLife.good s .backendClose with
    | some s1 => let (s', c, t) := shimPollLoop s1 0 400 true; (s', s!"{c} {t}")
    | none => (s, "?")
  | _ => (s, "bad-op")

def parseHOp (s : String) : Option RespPath.HOp :=
  match s.splitOn ":" with
  | ["S", k, v] => some (.setHeader (unhexD k) (unhexD v))
  | ["A", k, v] => some (.addHeader (unhexD k) (unhexD v))
  | ["D", k] => some (.delHeader (unhexD k))
  | ["H", c] => some (.writeHeader (Int.ofNat (natD c)))
  | ["W", d] => some (.write (unhexD d))
  | _ => none

/-- suite `srw`: `srw <ops>` ↦ status, header, body, trailer of the streamed response -/
def srwStep (_ : Unit) : List String → Unit × String
  | ["srw", ops] =>
    let hops := if ops == "-" then [] else (ops.splitOn ";").filterMap parseHOp
    let r := RespPath.output hops
    ((), s!"{r.status} {canonHeader r.hdr} {hexOf r.body} {canonHeader r.trailer}")
  | _ => ((), "bad-op")

/-- suite `appauth`: `backend id user enduser prefix` | `store bid rid user` | `agent <oauth|-> ep bid rid` | `admin <isAdmin> op` -/
def appauthStep (s : AppAuth.St) : List String → AppAuth.St × String
  | ["backend", id, u, eu, pre] =>
    let b : Backend := { BackendID := unhexD id, BackendUser := unhexD u, EndUser := unhexD eu, PathPrefixes := [unhexD pre] }
    ({ s with backends := b :: s.backends.filter (fun x => x.BackendID != b.BackendID) }, "ok")
  | ["store", bid, rid, u] =>
    ({ s with reqs := ((unhexD bid, unhexD rid), { user := unhexD u, contents := [], completed := false }) :: s.reqs.filter (fun p => p.1 != (unhexD bid, unhexD rid)) }, "ok")
  | ["agent", id, ep, bid, rid] =>
    let c : AppAuth.Caller := { oauth := if id == "-" then none else some (unhexD id), oauthAdmin := false, user := none, userAdmin := false }
    let e : AppAuth.AgentEp := if ep == "fetch" then .fetch else if ep == "respond" then .respond else .list
    let (st, _, s') := AppAuth.agentCall s c e (unhexD bid) (unhexD rid) [1]
    (s', toString st)
  | ["lookup", u, path, live] =>
    let liveIds := (live.splitOn ",").map unhexD
    let st : Route.Store := { backends := s.backends.reverse, lastSeen := fun b => if liveIds.contains b then some 0 else some (-400000000000) }
    match Route.lookup st (unhexD u) (unhexD path) 0 with
    | some b => (s, hexOf b)
    | none => (s, "404")
  | ["admin", adm, op] =>
    let c : AppAuth.Caller := { oauth := some [97], oauthAdmin := adm == "1", user := none, userAdmin := false }
    let o : AppAuth.AdminOp := if op == "list" then .listBackends else if op == "add" then .addBackend ⟨[101], [120], [97], [[47]]⟩ else .deleteBackend [101]
    let (st, _, s') := AppAuth.adminCall s c o
    (s', toString st)
  | _ => (s, "bad-op")

/-- suite `apprelay`: `parts <len>` ↦ number of part entities `newBlob` writes for a payload of that length (regenerated arithmetic) -/
def apprelayStep (_ : Unit) : List String → Unit × String
  | ["parts", n] =>
    let l := natD n
    ((), toString (if Gen.store_inlineTest l then 0 else Gen.store_partCount (l - Gen.store_fieldByteLimit)))
  | _ => ((), "bad-op")

/-- suite `lifecycle`: `gate <pattern>` | `monitor <threshold> <pattern>` (1 = passing check) ↦ number of checks until the gate opens / the agent exits -/
def lifecycleStep (_ : Unit) : List String → Unit × String
  | ["gate", p] => ((), match Lifecycle.gate (p.toList.map (· == '1')) with | some k => toString k | none => "none")
  | ["monitor", t, p] => ((), match Lifecycle.monitor (Int.ofNat (natD t)) (p.toList.map (· == '1')) with | some k => toString k | none => "none")
  | _ => ((), "bad-op")

def main (args : List String) : IO UInt32 := do
  let stdin ← IO.getStdin
  let stdout ← IO.getStdout
  match args with
  | ["backoff"] => loop stdin stdout backoffStep (); return 0
  | ["lifecycle"] => loop stdin stdout lifecycleStep (); return 0
  | ["apprelay"] => loop stdin stdout apprelayStep (); return 0
  | ["appauth"] => loop stdin stdout appauthStep { backends := [], reqs := [], resps := [] }; return 0
  | ["srw"] => loop stdin stdout srwStep (); return 0
  | ["shimlife"] => loop stdin stdout shimlifeStep (ShimLife.init 10); return 0
  | ["relay"] => loop stdin stdout relayStep Relay.init; return 0
  | ["sessions"] => loop stdin stdout sessionsStep { cap := 0, entries := [] }; return 0
  | ["wscodec"] => loop stdin stdout wscodecStep (); return 0
  | ["wsinject"] => loop stdin stdout wsinjectStep (); return 0
  | ["shimurl"] => loop stdin stdout shimurlStep (); return 0
  | ["quote"] => loop stdin stdout quoteStep (); return 0
  | ["blob"] => loop stdin stdout blobStep (); return 0
  | ["identity"] => loop stdin stdout identityStep (); return 0
  | ["banner"] => loop stdin stdout bannerStep (); return 0
  | ["splice"] => loop stdin stdout spliceStep []; return 0
  | ["dedup"] => loop stdin stdout dedupStep (0, [], []); return 0
  | ["route"] => loop stdin stdout routeStep (); return 0
  | ["seeker"] => loop stdin stdout seekerStep (Seeker.init 0); return 0
  | ["lru"] => loop stdin stdout lruStep (0, []); return 0
  | ["bridgeconn"] => loop stdin stdout bridgeStep { buffered := [], inbox := [] }; return 0
  | _ => IO.eprintln "usage: ipmodel <suite>"; return 2
