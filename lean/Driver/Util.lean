import InvProxy.Base.Bytes
open InvProxy

namespace Driver

def hexDigit (n : Nat) : Char := if n < 10 then Char.ofNat (48 + n) else Char.ofNat (87 + n)

def hexOf (bs : Bytes) : String :=
  if bs.isEmpty then "-" else
  String.ofList (bs.foldr (fun b acc => hexDigit (b.toNat / 16) :: hexDigit (b.toNat % 16) :: acc) [])

def nibble (c : Char) : Option Nat :=
  if '0' ≤ c ∧ c ≤ '9' then some (c.toNat - 48)
  else if 'a' ≤ c ∧ c ≤ 'f' then some (c.toNat - 87)
  else if 'A' ≤ c ∧ c ≤ 'F' then some (c.toNat - 55)
  else none

partial def unhexAux : List Char → Bytes → Option Bytes
  | [], acc => some acc.reverse
  | a :: b :: t, acc =>
    match nibble a, nibble b with
    | some x, some y => unhexAux t (UInt8.ofNat (x * 16 + y) :: acc)
    | _, _ => none
  | _, _ => none

def unhex (s : String) : Option Bytes := if s == "-" then some [] else unhexAux s.toList []

def unhexD (s : String) : Bytes := (unhex s).getD []

def natD (s : String) : Nat := s.toNat?.getD 0

def boolStr (b : Bool) : String := if b then "1" else "0"

def bytesLt : Bytes → Bytes → Bool
  | [], [] => false
  | [], _ :: _ => true
  | _ :: _, [] => false
  | a :: as, b :: bs => if a < b then true else if b < a then false else bytesLt as bs

def insertSorted (x : Bytes × List Bytes) : List (Bytes × List Bytes) → List (Bytes × List Bytes)
  | [] => [x]
  | y :: t => if bytesLt x.1 y.1 then x :: y :: t else y :: insertSorted x t

/-- same rendering as vh.CanonHeader on the Go side: keys sorted, values in order, hex -/
def canonHeader (h : List (Bytes × List Bytes)) : String :=
  let sorted := h.foldl (fun acc x => insertSorted x acc) []
  if sorted.isEmpty then "{}" else
  ";".intercalate (sorted.map fun (k, vs) => hexOf k ++ "=" ++ ",".intercalate (vs.map hexOf))

/-- One output line per input line; `step` returns the new state and the line to print. -/
partial def loop {σ : Type} (h : IO.FS.Stream) (out : IO.FS.Stream) (step : σ → List String → σ × String) (s : σ) : IO Unit := do
  let line ← h.getLine
  if line.isEmpty then return ()
  let l := String.ofList (line.toList.filter (fun c => c != '\n' && c != '\r'))
  let (s', o) := step s (l.splitOn " ")
  out.putStrLn o
  loop h out step s'

end Driver
