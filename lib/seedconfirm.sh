#!/bin/bash
# seedconfirm.sh <ID>: confirm a seeded change in a FRESH scratch worktree (/tmp/sc/<ID>/repo with a copy of the
# deliverables in /tmp/sc/<ID>/out): patch applies, builds, the 36-test suite passes, and (if out/demo.sh exists)
# the demonstration fails with the change and passes without it.
ID=$1; SEEDBASE=${SEEDBASE:-/tmp/seed}; SRC=$SEEDBASE/$ID/out; BASE=/tmp/sc/$ID; WT=$BASE/repo; OUT=$BASE/out
export GOFLAGS=-mod=mod GOPROXY=off GOSUMDB=off GOTOOLCHAIN=local
rm -rf $BASE; git -C /repo worktree prune; mkdir -p $BASE; cp -r $SRC $OUT
git -C /repo worktree add --detach -f $WT HEAD >/dev/null 2>&1 || { echo "worktree failed"; exit 2; }
cd $WT
echo "== files touched: $(grep '^+++ ' $OUT/patch.diff | tr '\n' ' ')"
git apply $OUT/patch.diff || { echo "PATCH DOES NOT APPLY"; exit 2; }
go build ./... || { echo "BUILD FAILS"; exit 2; }
go test -count=1 ./agent/banner ./agent/metrics ./agent/sessions ./agent/utils ./agent/websockets ./utils/... 2>&1 | grep -v "no test files" | grep -v "^ok" ; echo "== suite done (non-ok lines, if any, above)"
if [ -f $OUT/demo.sh ]; then
  sed -i "s#$SEEDBASE/$ID/#$BASE/#g" $OUT/demo.sh
  (cd $BASE && timeout 400 sh $OUT/demo.sh $WT >$BASE/with.log 2>&1); echo "== demo WITH change rc=$? (expect non-zero): $(grep -m2 -i 'fail\|panic' $BASE/with.log | tr '\n' ' ' | cut -c1-220)"
  git checkout -q -- . ; git clean -fdq
  (cd $BASE && timeout 400 sh $OUT/demo.sh $WT >$BASE/without.log 2>&1); echo "== demo WITHOUT change rc=$? (expect 0): $(tail -1 $BASE/without.log | cut -c1-160)"
else
  echo "== no demo.sh: $(ls $OUT | tr '\n' ' ')"
fi
cd /; git -C /repo worktree remove --force $WT
