#!/usr/bin/env python3
"""refacall.py [tier]: run every archived behaviour-preserving refactoring (refactorings/<id>/patch.diff) through the
check of its property (apply to /repo, ./check, restore).  Every line should say QUIET; exit 1 otherwise.
(seedtest.py saves and restores evidence/<Cnn>.json around each run.)"""
import json, os, subprocess, sys, glob
tier = sys.argv[1] if len(sys.argv) > 1 else "quick"
noisy = []
for d in sorted(glob.glob("/verif/refactorings/*")):
    m = json.load(open(d + "/meta.json"))
    pid = m["property"]
    p = subprocess.run([sys.executable, "/verif/lib/seedtest.py", d, pid, tier], capture_output=True, text=True)
    lines = [l.strip() for l in p.stdout.split("\n") if l.strip() and not l.strip().startswith("KNOWN")]
    detail = next((l for l in lines if l.startswith("broken:") or l.startswith("finding:")), "")
    status = "QUIET" if p.returncode == 0 else f"ALARM(rc={p.returncode})"
    if p.returncode != 0:
        noisy.append(os.path.basename(d))
    print(f"{status:12} {os.path.basename(d):60} {detail[:120]}", flush=True)
st = subprocess.run(["git", "-C", "/repo", "status", "--porcelain"], capture_output=True, text=True).stdout.strip()
print("repo clean" if not st else "REPO NOT CLEAN:\n" + st)
sys.exit(1 if noisy else 0)
