"""Per-property configuration of ./check: Lean modules, drivers, suites."""

# driver name -> package (relative to /repo) built with the overlay
DRIVERS = {
    "lib": "zz_verif/drv",
    "server": "server",
    "agent": "agent",
    "app": "app",
}

NOT_APPLICABLE = {}

STD_NOTE = ("Trusted: Lean 4.33 kernel (axioms propext, Classical.choice, Quot.sound only; audited per theorem on every run), "
            "goextract translator, overlay drivers/generators, Go race detector. ")

PROPS = {
    "C08": dict(
        technique="Lean 4 theorems over the regenerated BitVec-64 definition of the back-off target (goextract T2) + rational jitter model; differential run of the real function with seeded jitter",
        level_text="Proof for all 2^64 retry counts and every rational jitter draw: closed form, positivity, cap, doubling, monotonicity, +-10% bounds, loop counter behaviour; the theorems are stated about definitions regenerated from utils.go/agent.go on every run, so a change to the arithmetic, the guard or the loop's counter handling breaks a proof; the float jitter and the actual sleeping are validated by execution.",
        level_note=STD_NOTE + "Modelled, not verified: float64 rounding inside addJitter (rational abstraction, +-1ns), math/rand, time.Sleep. maxRetryCount is folded by goextract and cross-checked against the value the Go runtime computes.",
        suites=[dict(driver="lib", suite="backoff")],
        assumptions=["addJitter's float64 arithmetic is abstracted to exact rational arithmetic (validated on every run by suite backoff with seeded draws)",
                     "time.Sleep sleeps at least the requested duration (Go runtime)"],
    ),
    "C15": dict(
        technique="Lean 4 theorems on a hand model of WebsocketNetConn (hex codec round trip, stream reassembly invariant for all write/read segmentations) + regenerated routing predicate (goextract T2); differential run of the real Read/Write against the model; end-to-end runs through the real bridge binaries under -race",
        level_text="Proof for all byte strings, all write sizes (incl. empty), all read-buffer sizes and any interleaved non-text messages that successive Reads return exactly a prefix of the written stream and the whole stream given enough reads; hex round trip for all 256 byte values; routing predicate regenerated from connection.go. The Read/Write model is hand-written and compared with the real WebsocketNetConn on generated op sequences on every run.",
        level_note=STD_NOTE + "Modelled, not verified: gorilla/websocket framing and in-order message delivery, TCP, io.Copy; the frontend/backend main loops are exercised end to end (real binaries), not modelled. Concurrency between connections: independence is structural in the model (no shared state) and checked by -race runs.",
        suites=[dict(driver="lib", suite="bridgeconn"),
                dict(driver="lib", suite="bridge", race="thorough",
                     bins={"BRIDGE_FRONTEND": "utils/tcpbridge/tcp-bridge-frontend", "BRIDGE_BACKEND": "utils/tcpbridge/tcp-bridge-backend"})],
        assumptions=["gorilla/websocket delivers messages in order, intact", "the two io.Copy loops per side are the only users of each connection"],
    ),
}
