"""Per-property configuration of ./check: Lean modules, drivers, suites."""

# driver name -> package (relative to /repo) built with the overlay
DRIVERS = {
    "lib": "zz_verif/drv",
    "server": "server",
    "agent": "agent",
    "app": "app",
}

NOT_APPLICABLE = {}

STD_NOTE = ("Trusted: Lean 4.33 kernel (axioms propext, Classical.choice, Quot.sound only; audited per theorem on every run), "
            "goextract translator, overlay drivers/generators, Go race detector. ")

PROPS = {
    "C08": dict(
        technique="Lean 4 theorems over the regenerated BitVec-64 definition of the back-off target (goextract T2) + rational jitter model; differential run of the real function with seeded jitter",
        level_text="Proof for all 2^64 retry counts and every rational jitter draw: closed form, positivity, cap, doubling, monotonicity, +-10% bounds, loop counter behaviour; the theorems are stated about definitions regenerated from utils.go/agent.go on every run, so a change to the arithmetic, the guard or the loop's counter handling breaks a proof; the float jitter and the actual sleeping are validated by execution.",
        level_note=STD_NOTE + "Modelled, not verified: float64 rounding inside addJitter (rational abstraction, +-1ns), math/rand, time.Sleep. maxRetryCount is folded by goextract and cross-checked against the value the Go runtime computes.",
        suites=[dict(driver="lib", suite="backoff")],
        assumptions=["addJitter's float64 arithmetic is abstracted to exact rational arithmetic (validated on every run by suite backoff with seeded draws)",
                     "time.Sleep sleeps at least the requested duration (Go runtime)"],
    ),
}
