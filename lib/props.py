"""Per-property configuration of ./check: Lean modules, drivers, suites."""

# driver name -> package (relative to /repo) built with the overlay
DRIVERS = {
    "lib": "zz_verif/drv",
    "server": "server",
    "agent": "agent",
    "app": "app",
}

NOT_APPLICABLE = {}

STD_NOTE = ("Trusted: Lean 4.33 kernel (axioms propext, Classical.choice, Quot.sound only; audited per theorem on every run), "
            "goextract translator, overlay drivers/generators, Go race detector. ")

PROPS = {
    "C08": dict(
        technique="Lean 4 theorems over the regenerated BitVec-64 definition of the back-off target (goextract T2) + rational jitter model; differential run of the real function with seeded jitter",
        level_text="Proof for all 2^64 retry counts and every rational jitter draw: closed form, positivity, cap, doubling, monotonicity, +-10% bounds, loop counter behaviour; the theorems are stated about definitions regenerated from utils.go/agent.go on every run, so a change to the arithmetic, the guard or the loop's counter handling breaks a proof; the float jitter and the actual sleeping are validated by execution.",
        level_note=STD_NOTE + "Modelled, not verified: float64 rounding inside addJitter (rational abstraction, +-1ns), math/rand, time.Sleep. maxRetryCount is folded by goextract and cross-checked against the value the Go runtime computes.",
        suites=[dict(driver="lib", suite="backoff")],
        assumptions=["addJitter's float64 arithmetic is abstracted to exact rational arithmetic (validated on every run by suite backoff with seeded draws)",
                     "time.Sleep sleeps at least the requested duration (Go runtime)"],
    ),
    "C15": dict(
        technique="Lean 4 theorems on a hand model of WebsocketNetConn (hex codec round trip, stream reassembly invariant for all write/read segmentations) + regenerated routing predicate (goextract T2); differential run of the real Read/Write against the model; end-to-end runs through the real bridge binaries under -race",
        level_text="Proof for all byte strings, all write sizes (incl. empty), all read-buffer sizes and any interleaved non-text messages that successive Reads return exactly a prefix of the written stream and the whole stream given enough reads; hex round trip for all 256 byte values; routing predicate regenerated from connection.go. The Read/Write model is hand-written and compared with the real WebsocketNetConn on generated op sequences on every run.",
        level_note=STD_NOTE + "Modelled, not verified: gorilla/websocket framing and in-order message delivery, TCP, io.Copy; the frontend/backend main loops are exercised end to end (real binaries), not modelled. Concurrency between connections: independence is structural in the model (no shared state) and checked by -race runs.",
        suites=[dict(driver="lib", suite="bridgeconn"),
                dict(driver="lib", suite="bridge", race="thorough",
                     bins={"BRIDGE_FRONTEND": "utils/tcpbridge/tcp-bridge-frontend", "BRIDGE_BACKEND": "utils/tcpbridge/tcp-bridge-backend"})],
        assumptions=["gorilla/websocket delivers messages in order, intact", "the two io.Copy loops per side are the only users of each connection"],
    ),
    "C18": dict(
        technique="Lean 4 theorems on the regenerated mostSpecificMatchingBackend (goextract T2, glue lemma to a readable fold) and on a hand model of LookupBackend; bounded-exhaustive + random differential run of the real function against the regenerated definition and a brute-force oracle",
        level_text="Proof for all paths, all backend lists with arbitrary (overlapping, nested, duplicate, empty) prefixes: the chosen backend owns a longest matching prefix and is the first such in order; none iff nothing matches; user backends take precedence over shared ones; liveness window of 5 minutes; no second-best fall-back; dependence only on (backends, last-seen, user, path, now). The longest-prefix theorems are about the definition regenerated from store.go on every run.",
        level_note=STD_NOTE + "Modelled, not verified: LookupBackend/lookupSharedBackend/hasBackend are hand-modelled (Model/Route.lookup) and compared with the real functions over a fake datastore (suite applookup); datastore query semantics (equality filter, key order) are the fake's; time.Since is the model's `now`.",
        suites=[dict(driver="lib", suite="route")],
        assumptions=["datastore equality filters return exactly the matching entities in key order (fake datastore)", "backend IDs are non-empty (parseBackend rejects empty IDs)"],
    ),
    "C04": dict(
        technique="Lean 4 theorems: groupcache LRU = truncated recency order, hence exactly-once forwarding inside the dedup window for every reply history; invariant of the proxy's unbuffered hand-off over all interleavings; skeleton facts (T3) of the polling loop and the hand-off; differential runs of the real lru.Cache and the real polling loop against the model",
        level_text="Proof for every history of pending-list replies (any repeats, order, grouping) that each ID is forwarded exactly once when every repeat falls inside the 1000-entry window (full-strength window condition, plus the property's 'at most 1000 distinct outstanding' as a corollary), with a proved counter-example just outside the window; proof over all interleavings of arrivals, cancellations and polls by any number of pollers that each ID is handed to exactly one list reply. Loop/hand-off structure and the constant 1000 are regenerated from the source on every run.",
        level_note=STD_NOTE + "Modelled, not verified: groupcache/lru (hand model Base/Lru, compared with the real cache on every run), the Go channel semantics of the unbuffered hand-off (one receive completes exactly one sender), goroutine start. Worker retry counts are checked by the dedup suite, not proved.",
        suites=[dict(driver="lib", suite="lru"), dict(driver="agent", suite="dedup", env={"VERIF_DRIVER": "1"}, race="thorough"),
                dict(driver="lib", suite="handoff", bins={"SERVER": "server"}, race="thorough")],
        assumptions=["an unbuffered Go channel hands each sent value to exactly one receiver", "request IDs generated by the proxy are unique (see C01)"],
    ),
    "C06": dict(
        technique="Lean 4 theorems: replay-buffer invariant by induction over all read/seek sequences (seek guard regenerated by goextract T2), attempt loop LTS with fault scripts; differential run of the real bufferedReadSeeker and fault-scripted uploads through the real forwarder",
        level_text="Proof for every sequence of reads (any sizes, any source chunking) and seeks that the bytes handed to the transport since the last accepted seek are a prefix of the serialised stream from its first byte and the whole stream once caught up; a seek is accepted exactly while fewer than 4096 bytes were read, and then the full prefix is replayable. The refusal test is the definition regenerated from utils.go.",
        level_note=STD_NOTE + "Modelled, not verified: the wrapped source (io.Pipe), http.Client/Transport behaviour on errors (it may keep reading the body after RoundTrip returned: known finding D5 when a retry overlaps that reader).",
        suites=[dict(driver="lib", suite="seeker")],
        assumptions=["within one attempt the transport is the only reader of the body (violated by the real transport after an early error reply: known finding)"],
    ),
    "C14": dict(
        technique="Lean 4 theorems on a hand model of bannerResponseWriter over the regenerated predicates (goextract T2) and on ShimBody's splice; differential runs of the real banner.Proxy and ShimBody against the model plus independent oracles",
        level_text="Proof for all requests, statuses, header maps, handler write sequences: outside the exact predicate (GET, Accept contains text/html, 200, no attachment disposition, HTML content type) the banner writer is the identity on status, headers and every body write; already-framed requests keep the body; otherwise exactly the frame page with the caching/framing headers. Proof for all bodies and read segmentations that the shim script is inserted once immediately after the first <head> of the whole body, or not at all, and never for non-HTML types. Predicates are regenerated from banner.go on every run.",
        level_note=STD_NOTE + "Modelled, not verified: text/template rendering of the frame page (opaque page; the URL embedding is checked by the oracle), ServeMux routing, the writer's flag logic and ShimBody (hand models compared with the real code on every run).",
        suites=[dict(driver="lib", suite="banner"), dict(driver="lib", suite="splice")],
        assumptions=["the first Read of the backend body returns at most 1024 bytes into ShimBody's buffer (it is given a 1024-byte buffer)"],
    ),
    "C09": dict(
        technique="Lean 4 theorems on the regenerated header-edit slice of forwardRequest and the regenerated stripWSHeader (goextract T2) over a header-multimap algebra; differential run of the real forwardRequest; oracle runs through the real handler chain and a real websocket-shim open",
        level_text="Proof for every client header map, every asserted identity and all four flag combinations: with user-ID forwarding the identity field holds exactly the asserted value; with credential stripping no Authorization value remains, also in the header handed to the websocket dial; all other fields untouched. The theorems are about definitions regenerated from agent.go / connection.go on every run, so Set->Add, a dropped Del or a changed key breaks a proof.",
        level_note=STD_NOTE + "Modelled, not verified: Go's HTTP parser folds all spellings of a field name onto the canonical key (validated by the differential run); the handler chain below forwardRequest (sessions, shim mux, ReverseProxy) is exercised end to end, not modelled: it is assumed not to touch these two fields.",
        suites=[dict(driver="agent", suite="identity", env={"VERIF_DRIVER": "1"})],
        assumptions=["http.ReadRequest canonicalises header field names", "ReverseProxy forwards X-Inverting-Proxy-User-Id and drops nothing but hop-by-hop fields (observed end to end)"],
    ),
    "C13": dict(
        technique="Lean 4 theorems on the regenerated URL rewrite of the shim open handler (goextract T2) composed with a model of URL.String + gorilla's dial-address derivation, for arbitrary URL structures; differential run with the dial address observed through a NetDialContext hook",
        level_text="Proof for every URL structure (all fields arbitrary, stronger than what url.Parse can return): after the handler's rewrite the dial outcome is either a refusal or the configured backend, never another peer, and the rewrite result depends on the client URL only through path/query/fragment fields. The rewrite is regenerated from shim.go on every run; the original code is kept as a proved counter-example (opaque URL dials :80).",
        level_note=STD_NOTE + "Modelled, not verified: net/url String()/Parse and gorilla/websocket's derivation of the dial address (Model/ShimUrl.dialOutcome), validated on every run against the real stack through websocket.DefaultDialer.NetDialContext; ServeMux prefix routing (canonical paths only; ServeMux itself redirects non-canonical paths before repo code runs).",
        suites=[dict(driver="lib", suite="shimurl")],
        assumptions=["the configured backend host is a valid non-empty host[:port]"],
    ),
    "C11": dict(
        technique="Lean 4 theorems: base64 and message-codec round trips for all byte strings, exactly-once-in-order invariant and bounded progress of the bounded-FIFO relay over all interleavings and batchings, frame theorem for header injection on JSON values; skeleton facts (T3) of the relay goroutines and channel capacities; differential runs of the real shim against a real websocket backend",
        level_text="Proof for all byte strings that binary payloads survive the version-1 base64 transport and that the serialiser and the client-message decoder are mutually inverse on text and binary messages; proof for all message sequences, channel capacities, batchings and interleavings of producer/consumer steps that delivered ++ buffered ++ unsent is always the original sequence (so each side holds a prefix, and everything once the queues drain), with bounded progress; proof that injection changes only an object at resource.headers, only by adding absent request headers. Channel capacities and relay goroutine structure are regenerated from connection.go.",
        level_note=STD_NOTE + "Modelled, not verified: encoding/json text parsing and printing (values are an inductive type; numbers are compared as IEEE doubles), gorilla/websocket framing, Go channel FIFO semantics, the 'one data post and one poll outstanding at a time' discipline of the browser shim (a precondition of the property).",
        suites=[dict(driver="lib", suite="wsrelay"), dict(driver="lib", suite="wsinject")],
        assumptions=["Go channels are FIFO", "one data post and one poll outstanding at a time (as the injected browser shim does)", "JSON object keys are unique"],
    ),
    "C10": dict(
        technique="Lean 4 theorems on a hand model of the session layer over an abstract cookie jar: request/response step semantics, LRU-of-jars = keys-only LRU, refinement to one independent jar per session under the most-recently-used window for every interleaving of request and response steps; lock-region facts (T3) and cookie attributes (T2) regenerated; differential runs against real cookiejar references and -race runs",
        level_text="Proof for every history of request and response steps of any number of sessions (steps of different requests interleaved arbitrarily): the backend receives the client's other cookies plus exactly what an independent jar fed with that session's own responses holds, as long as the session is re-used before `limit` other sessions are; a response changes no other session's jar; the client only ever receives the agent's session cookie, issued iff it presented none. Lock regions of the cache and the cookie literal are regenerated from sessions.go on every run.",
        level_note=STD_NOTE + "Modelled, not verified: net/http/cookiejar (abstract JarOps parameter; the real jar is compared with independent reference jars on every run), cookie parsing/serialisation, uuid freshness (a fresh ID is a parameter of the response step). The model's step atomicity rests on the single critical section of cachedCookieJar (T3 fact) and is validated under the race detector.",
        suites=[dict(driver="lib", suite="sessions"), dict(driver="lib", suite="sessionsrace", race=True)],
        assumptions=["uuid.New() returns IDs that are fresh", "cookiejar.Jar is safe for concurrent use (documented)"],
    ),
    "C01": dict(
        technique="Lean 4 invariant proof over a labelled transition system of clients, agent workers and deliveries (all interleavings), parametrised by the ID-generator variant; the variant and the locking/rendezvous structure are decided from regenerated skeletons (T3); differential runs of sequentialised histories and a concurrent token-echo soak through the real proxy binary and real agent code under the race detector",
        level_text="Proof for any number of clients and every interleaving of arrivals, fetches, backend completions, uploads and deliveries: a delivered response was produced from the receiving client's own request, each client gets at most one, a fetch by ID returns the registered client's request, IDs are unique - under an atomic ID draw; with a proved counter-example for the unsynchronised draw of the original code. That the code performs the draw and every map access under the proxy mutex and correlates through the pending request's own unbuffered channel is regenerated from server.go on every run.",
        level_note=STD_NOTE + "Modelled, not verified: SHA-256 of distinct generator outputs are distinct and math/rand does not repeat within a run (IDs are modelled as a fresh counter); responses are atomic tokens in the model (streaming of one response's parts is C03/C05); Go mutex/channel semantics; net/http.",
        suites=[dict(driver="lib", suite="relay", bins={"SERVER": "server"}),
                dict(driver="lib", suite="relaysoak", race=True, bins={"SERVER": "server", "AGENT": "agent"})],
        assumptions=["request IDs (SHA-256 of PRNG outputs) do not collide", "Go's sync.Mutex and unbuffered channels behave as specified (DRF-SC for race-free code, validated with -race)"],
    ),
    "C16": dict(
        technique="Lean 4 labelled transition system of one bridged connection (four copy loops, three hops per direction, teardown variant read off the regenerated skeletons): decided counter-examples for the code as it is and for first-done teardown, inductive invariant + bounded-progress proof for half-close forwarding; black-box runs through the real bridge binaries",
        level_text="The code is classified (from the regenerated skeletons of connection.Handler and the frontend main) as `waitBoth`, for which the property is FALSE: kernel-checked traces show the close never reaching the other peer and both sides leaking after both peers closed (known findings, reproduced on the real binaries on every run). Proof that first-done teardown loses in-flight data, and proof - for all interleavings of sends, closes and loop steps - that forwarding half-close per direction conserves data, never tears down spuriously, and reaches end-of-stream/release within `mu` internal steps. A change of the teardown structure changes the classification theorem.",
        level_note=STD_NOTE + "Partial: 'bounded time' is a bound on internal steps in the model; seconds are only measured (2 s time-out). Modelled, not verified: TCP/websocket in-order delivery with FIN after data, io.Copy loop termination conditions, gorilla Close semantics.",
        suites=[dict(driver="lib", suite="bridgelife", bins={"BRIDGE_FRONTEND": "utils/tcpbridge/tcp-bridge-frontend", "BRIDGE_BACKEND": "utils/tcpbridge/tcp-bridge-backend"})],
        assumptions=["TCP and the websocket deliver in order; a close is observed after the data queued before it"],
    ),
    "C12": dict(
        technique="Lean 4 labelled transition system of one shim session (reader/writer/closer goroutines, session table, any number of concurrent data/poll/close calls as step-wise threads) with close/send style variants classified from the regenerated skeletons (T3): invariant (no panic, statuses), enabledness and a strictly decreasing measure for all interleavings; decided counter-examples for the original variant; differential scripts and concurrent call races on the real shim under the race detector",
        level_text="Proof, for any number of concurrently running calls and every interleaving with goroutine steps and backend events, that no call panics, every unanswered call leaves some internal step enabled while every internal step strictly decreases a measure (so each call is answered within `mu` internal steps), answers are 200/400/408, calls on sessions not in the table get 400, a closed session cancels the connection (closing the backend websocket), and the reader has taken every backend message when it reports the session closed. The code is classified from the regenerated skeletons of Connection.Close / SendClientMessage; the original code's variant is kept with kernel-checked panic and wedge traces.",
        level_note=STD_NOTE + "Partial: absence of panics is proved for the modelled operations (channel send/close, table, goroutine exits); panics from other Go operations can only be met by the call-race runs. Modelled, not verified: Go channel/select semantics, sync.Map, gorilla/websocket; the 20 s poll timer is an always-enabled step.",
        suites=[dict(driver="lib", suite="shimlife"), dict(driver="lib", suite="shimrace", race=True)],
        assumptions=["Go select picks some ready case; a send on a full channel blocks", "the injected browser shim keeps one data post and one poll outstanding (not required for the no-panic/answers theorems)"],
    ),
    "C02": dict(
        technique="Lean 4 theorems on the regenerated hop-by-hop predicate and request-header filter of the proxy and the regenerated header edits of the agent (goextract T2), composed with standard-library stages constrained by a named specification; end-to-end runs of raw client bytes through the real proxy binary and real agent code to a recording raw backend",
        level_text="Proof for every header map that the proxy's filter removes exactly the RFC 7230 hop-by-hop fields (table proved equal to the specification list, case-insensitively) and keeps every other field's values in order; proof that the composition proxy filter -> wire -> agent edits -> ReverseProxy preserves method, request target, Host, body and every end-to-end header the client sent, given the stated clauses for the standard-library stages; hop-by-hop fields do not reach the backend. Filter and edits are regenerated from server.go / agent.go on every run.",
        level_note=STD_NOTE + "Partial: Go's HTTP server parse, Request.Write, ReadRequest, ReverseProxy and transport are specified (StdReqSpec) and validated end to end on every run, not proved. Interpretations: fields nominated by Connection: are not treated as hop-by-hop by the stand-alone proxy; X-Forwarded-For appending and Accept-Encoding/User-Agent defaults are 'fields the path may add'.",
        suites=[dict(driver="lib", suite="reqpath", bins={"SERVER": "server", "AGENT": "agent"}, race="thorough")],
        assumptions=["StdReqSpec: each standard-library stage keeps method, target, Host, body and the values of every non-hop, non-framing field, and adds fields only where absent"],
    ),
    "C03": dict(
        technique="Lean 4 theorems on a sequential model of streamingResponseWriter built from its regenerated header loops, interim-status test and map-sharing facts (goextract T2/T1), and on the regenerated response copy of the proxy, composed with specified standard-library wire stages; differential run of the real writer; end-to-end runs of scripted wire responses through real agent code and the real proxy binary under the race detector",
        level_text="Proof for every handler script (any header edits, interim 1xx codes, any number of declared trailers - one per value or comma-joined - undeclared Trailer:-prefixed trailers, any body chunking): the emitted status is the first final status, the body is the concatenation of the writes, every end-to-end header present at head time is forwarded with its values in order, hop-by-hop fields are dropped from headers and trailers, declared and undeclared trailers are delivered as trailers with the handler's values; proof that the proxy's copy keeps non-hop headers and passes trailers on; composed end-to-end statement under StdRespSpec. The response owning private header/trailer maps (no sharing with the handler goroutine) is a regenerated fact.",
        level_note=STD_NOTE + "Partial: Response.Write, chunked coding, ReadResponse, ReverseProxy and the Go server's trailer handling are specified (StdRespSpec) and validated end to end, not proved; schedule independence rests on the no-shared-maps facts plus race-detector runs (the two-goroutine interleaving is not modelled as an LTS). Preconditions: handlers keep canonical header keys (ReverseProxy does); no zero-length first write.",
        suites=[dict(driver="lib", suite="srw"),
                dict(driver="lib", suite="resppath", bins={"SERVER": "server", "AGENT": "agent"}, race=True)],
        assumptions=["StdRespSpec: the wire stages keep status, body, trailer values and the values of every non-framing header field", "httputil.ReverseProxy stores canonical header keys and never issues a zero-length first write"],
    ),
    "C17": dict(
        technique="Lean 4 theorems on a hand model of the App Engine proxy's handlers over an abstract store (per-call statements over arbitrary store states and callers), call-order facts regenerated from the handlers' skeletons (T3) and api.yaml (T1); differential run of the full identity x backend x request x endpoint cross product against the real handlers and real stores over a fake App Engine API",
        level_text="Proof for every store state, caller, backend ID, request ID and endpoint: a non-401 agent call implies the caller's OAuth identity is the registered backend user; a 401 reply and the unchanged state are independent of all stored requests/responses; an authorised call changes and reveals only its own backend's requests, and stores a response only for a request existing under that backend; end users are routed only to backends registered for them or for allUsers (via C18); non-admins get 403 and change nothing. Since these are per-call statements over arbitrary states they hold for calls in any order. That checkBackendID / the admin test precede every store access is regenerated from proxy.go on every run.",
        level_note=STD_NOTE + "Modelled, not verified: the App Engine users/OAuth, datastore and memcache services (a strongly consistent in-memory fake at the API-call level; real datastore queries are eventually consistent), JSON parsing of backend definitions; /cron/delete is protected by `login: admin` in api.yaml (regenerated fact), not by code.",
        suites=[dict(driver="app", suite="appauth", env={"VERIF_DRIVER": "1"})],
        assumptions=["user.CurrentOAuth / user.Current / user.IsAdmin report the caller's true identity", "request IDs (App Engine request-log IDs) are unique"],
    ),
    "C19": dict(
        modules=["C19", "C19b"],
        technique="Lean 4 theorems: blob split/join round trip over the regenerated part arithmetic (goextract T2) for every size; per-call relay statements over arbitrary store states on the AppAuth model; bounded-channel termination of postResponse for every interleaving and fault combination with the capacity regenerated from the handler's skeleton (T3); end-to-end exchanges through the real handlers and real stores over a fake App Engine API with payloads around the 1,000,000-byte limits, memcache drops and store-fault rules",
        level_text="Proof for every payload size that stored requests/responses read back byte-identical, parts never exceed the field limit and the part count is as computed; proof that a fetch under a request ID returns exactly the stored client request, that the waiting client only ever receives a response some authorised agent posted under that very ID (for every sequence of agent calls), that agents of other backends can neither fetch nor answer it (fresh IDs), that a completed request leaves the pending list, that no response means 504; proof over all interleavings and failure combinations that postResponse's goroutines never block when the error channel has room for both - capacity and goroutine structure regenerated from proxy.go - with a kernel-checked hang trace for capacity 1.",
        level_note=STD_NOTE + "Modelled, not verified: datastore/memcache (in-memory fake; strongly consistent), http.Request.Write / ReadResponse serialisation, the 30 s polling windows (504 = no response stored; wall-clock measured only), response caching of GETs in memcache (a cached 200 is by construction an earlier response for the same user and URL) and response trailers (dropped by the App Engine proxy; trailers are C03's subject).",
        suites=[dict(driver="app", suite="apprelay", env={"VERIF_DRIVER": "1"}, race="thorough")],
        assumptions=["App Engine request IDs are unique (RidFresh)", "datastore Put/Get of one entity are atomic and strongly consistent by key"],
    ),
}
