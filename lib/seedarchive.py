#!/usr/bin/env python3
"""seedarchive.py <seed out dir> <seeded-id> <property> <caught: yes|no|partial> <caught_by text> : copy a confirmed seeded change into /verif/seeded/<id>/"""
import json, os, shutil, sys
src, sid, pid, caught, by = sys.argv[1:6]
dst = f"/verif/seeded/{sid}"
os.makedirs(dst, exist_ok=True)
for f in os.listdir(src):
    if f.endswith((".diff", ".go", ".sh", ".json", ".txt", ".md", ".py")) and os.path.getsize(os.path.join(src, f)) < 200000:
        shutil.copy(os.path.join(src, f), dst)
meta = {}
mp = os.path.join(dst, "meta.json")
if os.path.exists(mp):
    try:
        meta = json.load(open(mp))
    except Exception:
        meta = {"raw": open(mp).read()}
meta.update({"property": pid, "confirmed_by_us": "go build ./... ; the 36-test suite passes with the change; the demonstration fails with the change and passes without it (run in a scratch worktree)",
             "check_run": f"git -C /repo apply seeded/{sid}/patch.diff; ./check {pid}; git -C /repo checkout -- .", "caught": caught, "caught_by": by})
json.dump(meta, open(mp, "w"), indent=1)
print("archived", dst)
