#!/usr/bin/env python3
"""Shared machinery of /verif/check: regenerate the Lean model parts from /repo (T),
re-check the property theorems and audit their axioms, build the overlay drivers from
/repo's working tree, run the correspondence suites (C) and oracles, optionally under the
race detector (R), decide, and write evidence."""
import fcntl, hashlib, json, os, re, shutil, subprocess, sys, time

ROOT = "/verif"
REPO = os.environ.get("VERIF_REPO", "/repo")
LEAN = os.path.join(ROOT, "lean")
BUILD = os.path.join(ROOT, ".build")
EVID = os.path.join(ROOT, "evidence")
ALLOWED_AXIOMS = {"propext", "Classical.choice", "Quot.sound"}

GOENV = dict(os.environ, GOFLAGS="-mod=mod", GOPROXY="off", GOSUMDB="off", GOTOOLCHAIN="local",
             CGO_ENABLED="1")

TRUSTED_BASE = [
    "Lean 4.33.0 kernel; axioms allowed: propext, Classical.choice, Quot.sound (audited per theorem by #print axioms)",
    "goextract (tie T): syntactic translator over a whitelisted Go subset, /verif/tools/goextract",
    "correspondence drivers and generators (tie C), /verif/harness/overlay; Go race detector (tie R)",
    "Go standard library, gorilla/websocket, groupcache/lru, uuid, App Engine APIs: modelled (named Spec hypotheses / fakes), validated differentially, not verified",
]


def log(msg):
    print(msg, flush=True)


def sh(cmd, cwd=None, env=None, timeout=3600, stdin=None):
    p = subprocess.run(cmd, cwd=cwd, env=env or GOENV, stdout=subprocess.PIPE, stderr=subprocess.STDOUT,
                       timeout=timeout, input=stdin)
    return p.returncode, p.stdout.decode("utf-8", "replace")


class Lock:
    def __init__(self, name=".lock"):
        self.path = os.path.join(ROOT, name)

    def __enter__(self):
        self.f = open(self.path, "w")
        fcntl.flock(self.f, fcntl.LOCK_EX)
        return self

    def __exit__(self, *a):
        fcntl.flock(self.f, fcntl.LOCK_UN)
        self.f.close()


class Broken(Exception):
    """A tie or proof obligation that no longer checks."""

    def __init__(self, kind, name, detail=""):
        super().__init__(f"{kind}: {name}")
        self.kind, self.name, self.detail = kind, name, detail


# ---------------------------------------------------------------- T: goextract

def build_goextract():
    os.makedirs(BUILD, exist_ok=True)
    out = os.path.join(BUILD, "goextract")
    srcdir = os.path.join(ROOT, "tools/goextract")
    newest = max(os.path.getmtime(os.path.join(srcdir, f)) for f in os.listdir(srcdir))
    if os.path.exists(out) and os.path.getmtime(out) >= newest:
        return out
    rc, o = sh(["go", "build", "-o", out, "."], cwd=srcdir)
    if rc != 0:
        raise RuntimeError("goextract does not build:\n" + o)
    return out


def regenerate():
    """Regenerate lean/InvProxy/Gen from /repo's working tree. Files are replaced only when
    their content changed, so an unchanged tree costs no Lean rebuild."""
    exe = build_goextract()
    tmp = os.path.join(BUILD, "gen.%d" % os.getpid())
    shutil.rmtree(tmp, ignore_errors=True)
    os.makedirs(tmp)
    rc, o = sh([exe, "-repo", REPO, "-out", tmp, "-props", os.path.join(LEAN, "InvProxy/Props")])
    if rc != 0:
        shutil.rmtree(tmp, ignore_errors=True)
        # the generated files on disk may stem from another tree (an earlier run): fall back to the committed
        # snapshot, so that what is built and replayed next is at least the model of the unchanged tree
        sh(["git", "-C", ROOT, "checkout", "--", "lean/InvProxy/Gen"])
        raise Broken("translator", "goextract", o.strip())
    gen = os.path.join(LEAN, "InvProxy/Gen")
    os.makedirs(gen, exist_ok=True)
    changed = []
    for f in sorted(os.listdir(tmp)):
        new = open(os.path.join(tmp, f), "rb").read()
        dst = os.path.join(gen, f)
        old = open(dst, "rb").read() if os.path.exists(dst) else None
        if new != old:
            with open(dst, "wb") as fh:
                fh.write(new)
            changed.append(f)
    for f in os.listdir(gen):
        if f.endswith(".lean") and not os.path.exists(os.path.join(tmp, f)):
            os.remove(os.path.join(gen, f))
    shutil.rmtree(tmp, ignore_errors=True)
    return changed


# ---------------------------------------------------------------- Lean

ERR_RE = re.compile(r"^error: (\S+\.lean):(\d+):(\d+): (.*)$")


def theorem_at(path, line):
    """Name of the declaration enclosing `line` of a Lean file."""
    try:
        lines = open(os.path.join(LEAN, path)).read().split("\n")
    except OSError:
        return "?"
    for i in range(min(line, len(lines)) - 1, -1, -1):
        m = re.match(r"\s*(?:@\[[^\]]*\]\s*)?(?:private\s+|protected\s+)?(theorem|lemma|def|example|instance|abbrev)\s+(\S+)?", lines[i])
        if m:
            return (m.group(2) or "example") + f" ({path}:{i+1})"
    return f"{path}:{line}"


def lake_build(targets, clean=False):
    if clean:
        sh(["lake", "clean"], cwd=LEAN)
    rc, o = sh(["lake", "build"] + targets, cwd=LEAN, timeout=3600)
    if rc != 0:
        broken = []
        for l in o.split("\n"):
            m = ERR_RE.match(l.strip())
            if m:
                broken.append((theorem_at(m.group(1), int(m.group(2))), m.group(4)))
        name = broken[0][0] if broken else "lake build " + " ".join(targets)
        detail = "\n".join(f"{n}: {msg}" for n, msg in broken[:20]) or o[-3000:]
        raise Broken("theorem", name, detail)
    return o


FORBIDDEN = re.compile(r"\bsorry\b|\badmit\b|^\s*axiom\s|native_decide|bv_decide|implemented_by|\bunsafe\s|maxHeartbeats\s+0")


def strip_comments(text):
    text = re.sub(r"/-.*?-/", "", text, flags=re.S)
    return re.sub(r"--.*", "", text)


def import_closure(module):
    """Lean source files (within lean/) that `module` transitively imports, itself included."""
    seen, todo = {}, [module]
    while todo:
        m = todo.pop()
        if m in seen:
            continue
        path = os.path.join(LEAN, m.replace(".", "/") + ".lean")
        if not os.path.exists(path):
            continue
        seen[m] = path
        for line in open(path).read().split("\n"):
            mm = re.match(r"\s*import\s+(\S+)", line)
            if mm and (mm.group(1).startswith("InvProxy") or mm.group(1).startswith("Driver")):
                todo.append(mm.group(1))
    return seen


def grep_forbidden(module=None):
    """Forbidden constructs in the sources the property's theorems depend on (its import closure)."""
    hits = []
    if module:
        files = sorted(import_closure(module).values())
    else:
        files = []
        for dp, dn, fn in os.walk(LEAN):
            if ".lake" in dp:
                continue
            files += [os.path.join(dp, f) for f in fn if f.endswith(".lean")]
    for p in files:
        for i, l in enumerate(strip_comments(open(p).read()).split("\n")):
            if FORBIDDEN.search(l):
                hits.append(f"{p}:{i+1}: {l.strip()}")
    return hits


DECL_RE = re.compile(r"^(?:@\[[^\]]*\]\s*)?(?:protected\s+)?theorem\s+([A-Za-z_][\w'.]*)", re.M)


def prop_theorems(pid):
    path = os.path.join(LEAN, "InvProxy/Props", pid + ".lean")
    text = strip_comments(open(path).read())
    ns = re.search(r"^namespace\s+(\S+)", text, re.M)
    prefix = (ns.group(1) + ".") if ns else ""
    return [prefix + n for n in DECL_RE.findall(text)]


def audit(pid):
    """#print axioms for every theorem of Props/<pid>.lean; returns {theorem: [axioms]}."""
    names = prop_theorems(pid)
    if not names:
        raise Broken("theorem", f"Props/{pid}.lean", "no theorems found")
    os.makedirs(os.path.join(BUILD, "audit"), exist_ok=True)
    f = os.path.join(BUILD, "audit", f"Audit_{pid}.lean")
    with open(f, "w") as fh:
        fh.write(f"import InvProxy.Props.{pid}\n")
        for n in names:
            fh.write(f"#print axioms {n}\n")
    rc, o = sh(["lake", "env", "lean", f], cwd=LEAN)
    if rc != 0:
        raise Broken("theorem", f"audit of Props/{pid}.lean", o[-2000:])
    res = {}
    for m in re.finditer(r"'([^']+)' (?:depends on axioms: \[([^\]]*)\]|does not depend on any axioms)", o):
        axs = [a.strip() for a in (m.group(2) or "").replace("\n", " ").split(",") if a.strip()]
        res[m.group(1)] = axs
    missing = [n for n in names if n not in res]
    if missing:
        raise Broken("theorem", missing[0], "no axiom report for: " + ", ".join(missing))
    for n, axs in res.items():
        bad = [a for a in axs if a not in ALLOWED_AXIOMS]
        if bad:
            raise Broken("axiom-audit", n, "depends on non-standard axioms: " + ", ".join(bad))
    return res


def build_ipmodel():
    rc, o = sh(["lake", "build", "ipmodel"], cwd=LEAN)
    if rc != 0:
        raise Broken("model-driver", "ipmodel", o[-3000:])
    return os.path.join(LEAN, ".lake/build/bin/ipmodel")


# ---------------------------------------------------------------- Go drivers (overlay)

def overlay_file():
    """overlay.json mapping /repo/<...>/zz_verif_*.go -> /verif/harness/overlay/<...>."""
    base = os.path.join(ROOT, "harness/overlay")
    rep = {}
    for dp, dn, fn in os.walk(base):
        for f in fn:
            if f.endswith(".go"):
                rel = os.path.relpath(os.path.join(dp, f), base)
                d, b = os.path.split(rel)
                rep[os.path.join(REPO, d, "zz_verif_" + b)] = os.path.join(dp, f)
    os.makedirs(BUILD, exist_ok=True)
    p = os.path.join(BUILD, "overlay.%d.json" % os.getpid())
    json.dump({"Replace": rep}, open(p, "w"), indent=1)
    return p


def go_build(pkg, out, race=False):
    """Build ./<pkg> of /repo's working tree with the verif overlay into .build/<out>."""
    ov = overlay_file()
    dst = os.path.join(BUILD, out)
    cmd = ["go", "build", "-mod=readonly", "-tags", "verif", "-overlay", ov, "-o", dst]
    if race:
        cmd.append("-race")
    cmd.append("./" + pkg)
    rc, o = sh(cmd, cwd=REPO, timeout=1800)
    try:
        os.remove(ov)
    except OSError:
        pass
    if rc != 0:
        raise Broken("driver-build", pkg, o[-4000:])
    return dst


def run_driver(exe, args, timeout=1800, env=None):
    e = dict(GOENV)
    e.update(env or {})
    t0 = time.time()
    try:
        p = subprocess.run([exe] + args, stdout=subprocess.PIPE, stderr=subprocess.PIPE, timeout=timeout, env=e)
        rc, out, err = p.returncode, p.stdout.decode("utf-8", "replace"), p.stderr.decode("utf-8", "replace")
    except subprocess.TimeoutExpired as ex:
        rc, out, err = -9, (ex.stdout or b"").decode("utf-8", "replace"), (ex.stderr or b"").decode("utf-8", "replace") + "\nTIMEOUT"
    return rc, out, err, time.time() - t0


def run_model(ipmodel, suite, ops_path):
    with open(ops_path, "rb") as fh:
        p = subprocess.run([ipmodel, suite], stdin=fh, stdout=subprocess.PIPE, stderr=subprocess.PIPE, timeout=1800)
    if p.returncode != 0:
        raise Broken("model-driver", f"ipmodel {suite}", p.stderr.decode("utf-8", "replace")[-2000:])
    return p.stdout.decode("utf-8", "replace").split("\n")


# ---------------------------------------------------------------- known findings, evidence, verdict

def known_findings():
    p = os.path.join(ROOT, "known_findings.json")
    if not os.path.exists(p):
        return []
    return json.load(open(p)).get("findings", [])


def write_evidence(pid, tier, seed, coverage, assumptions, wall, violations):
    os.makedirs(EVID, exist_ok=True)
    ev = {"property_id": pid, "tier": tier, "seed": seed, "level": "proof", "coverage": coverage,
          "assumptions": assumptions, "wall_s": round(wall, 2), "violations": violations}
    tmp = os.path.join(EVID, f".{pid}.json.tmp")
    json.dump(ev, open(tmp, "w"), indent=1, sort_keys=True)
    os.replace(tmp, os.path.join(EVID, pid + ".json"))


def write_replay(pid, seed, n, payload):
    d = os.path.join(EVID, "replay")
    os.makedirs(d, exist_ok=True)
    p = os.path.join(d, f"{pid}-{seed}-{n}.json")
    json.dump(payload, open(p, "w"), indent=1)
    return p
