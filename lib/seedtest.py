#!/usr/bin/env python3
"""seedtest.py <seed-dir> <property> [tier]: apply a seeded change to /repo, run the check, restore /repo.
Prints the check's verdict lines; exit code = check's exit code.  evidence/<Cnn>.json is saved and put back."""
import subprocess, sys, os, json
d, pid = sys.argv[1], sys.argv[2]
tier = sys.argv[3] if len(sys.argv) > 3 else "quick"
patch = os.path.join(d, "patch.diff")
st = subprocess.run(["git", "-C", "/repo", "status", "--porcelain"], capture_output=True, text=True).stdout.strip()
if st:
    print("refusing: /repo is not clean:\n" + st); sys.exit(3)
r = subprocess.run(["git", "-C", "/repo", "apply", patch], capture_output=True, text=True)
if r.returncode != 0:
    print("patch does not apply:", r.stderr); sys.exit(3)
ev = f"/verif/evidence/{pid}.json"
saved = open(ev, "rb").read() if os.path.exists(ev) else None
try:
    p = subprocess.run(["./check", pid, "--tier", tier], cwd="/verif", capture_output=True, text=True, timeout=3000)
    out = [l for l in p.stdout.split("\n") if l.startswith("VIOLATION") or l.startswith("KNOWN")]
    print(f"[{pid} {tier}] rc={p.returncode}", *[l[:200] for l in out], sep="\n  ")
    rp = None
    for l in out:
        if l.startswith("VIOLATION"):
            rp = l.split("replay=")[1].split()[0]
    if rp and os.path.exists(rp):
        j = json.load(open(rp))
        print("  finding:", j.get("finding_key"), "|", (j.get("what") or "")[:300].replace("\n", " "))
        print("  broken:", [b["kind"] + ":" + b["name"] for b in j.get("broken", [])][:4])
    rc = p.returncode
finally:
    if saved is not None:
        open(ev, "wb").write(saved)   # the evidence of the clean tree stays what is committed
    subprocess.run(["git", "-C", "/repo", "checkout", "--", "."])
    subprocess.run(["git", "-C", "/verif", "checkout", "--", "lean/InvProxy/Gen"])   # the generated snapshot of the clean tree
    subprocess.run(["git", "-C", "/repo", "clean", "-fdq"])
sys.exit(rc)
