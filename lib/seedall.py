#!/usr/bin/env python3
"""seedall.py [tier]: run every archived seeded change (seeded/<id>/patch.diff) through the check of its property
(apply to /repo, ./check, restore) and print one line per change.  Exit 1 if any change is not reported.
(seedtest.py saves and restores evidence/<Cnn>.json around each run.)"""
import json, os, subprocess, sys, glob
tier = sys.argv[1] if len(sys.argv) > 1 else "quick"
missed = []
for d in sorted(glob.glob("/verif/seeded/*")):
    m = json.load(open(d + "/meta.json"))
    pid = m["property"]
    p = subprocess.run([sys.executable, "/verif/lib/seedtest.py", d, pid, tier], capture_output=True, text=True)
    lines = [l for l in p.stdout.split("\n") if l.strip() and not l.startswith("  KNOWN")]
    finding = next((l.strip() for l in lines if l.strip().startswith("finding:")), "")
    nofail = any("no-failing-input-found" in l for l in lines)
    status = "CAUGHT" if p.returncode == 1 and not nofail else ("CAUGHT(no-input)" if p.returncode == 1 else f"MISSED(rc={p.returncode})")
    if p.returncode != 1:
        missed.append(os.path.basename(d))
    print(f"{status:18} {os.path.basename(d):55} {finding[:140]}", flush=True)
st = subprocess.run(["git", "-C", "/repo", "status", "--porcelain"], capture_output=True, text=True).stdout.strip()
print("repo clean" if not st else "REPO NOT CLEAN:\n" + st)
sys.exit(1 if missed else 0)
